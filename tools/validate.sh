#!/bin/bash
# validate MANIFEST.json and all evidence files against the schemas
python3-vt - <<'PY'
import json, jsonschema, glob
jsonschema.validate(json.load(open('/verif/MANIFEST.json')), json.load(open('/root/.vp/MANIFEST.schema.json')))
s=json.load(open('/root/.vp/EVIDENCE.schema.json'))
for f in sorted(glob.glob('/verif/evidence/*.json')):
    jsonschema.validate(json.load(open(f)), s)
print('manifest + %d evidence files valid' % len(glob.glob('/verif/evidence/*.json')))
PY
