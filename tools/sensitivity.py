#!/venv/bin/python
"""Dev tool (not a registered check): apply catalogue mutants to a scratch copy of /repo and expect the
quick check of the property to exit 1 with a VIOLATION line.

  tools/sensitivity.py C12            all mutants of C12
  tools/sensitivity.py C12 2          only mutant #2
  tools/sensitivity.py --patch C12 /path/to/patch.diff     a unified diff instead of a catalogue entry
Options: --tests  also run the repository's test-suite on the mutant (is it test-silent?)
"""
import json
import os
import shutil
import subprocess
import sys
import tempfile
import time

ROOT = os.path.dirname(os.path.dirname(os.path.abspath(__file__)))
sys.path.insert(0, ROOT)
from tools.mutants import MUTANTS  # noqa: E402


def run_tests(copy):
    env = dict(os.environ, PYTHONPATH=os.path.join(copy, "src"), PYTHONDONTWRITEBYTECODE="1")
    env.pop("CLIKIT_VERIF", None)
    p = subprocess.run(
        ["/venv/bin/python", "-m", "pytest", "-q", "-p", "no:cacheprovider", "--timeout=900"],
        cwd=copy, env=env, stdout=subprocess.PIPE, stderr=subprocess.STDOUT, text=True,
    )
    last = [l for l in p.stdout.splitlines() if "passed" in l or "failed" in l]
    return last[-1] if last else "?"


def run_check(prop, copy, tier="quick", seed="1"):
    env = dict(os.environ, CLIKIT_SRC=os.path.join(copy, "src"), VERIF_SEED=seed, VERIF_NO_EVIDENCE="1")
    t0 = time.time()
    p = subprocess.run(
        [os.path.join(ROOT, "check"), prop, tier], cwd=ROOT, env=env,
        stdout=subprocess.PIPE, stderr=subprocess.STDOUT, text=True,
    )
    lines = [l for l in p.stdout.splitlines() if "conda" not in l]
    clause = [l for l in lines if l.startswith("clause ") or l.startswith("regression case")]
    return p.returncode, (clause[0] if clause else (lines[-1] if lines else "")), time.time() - t0


def make_copy():
    d = tempfile.mkdtemp(prefix="clikit-mut-", dir="/tmp")
    shutil.copytree("/repo/src", os.path.join(d, "src"), ignore=shutil.ignore_patterns("__pycache__"))
    shutil.copytree("/repo/tests", os.path.join(d, "tests"), ignore=shutil.ignore_patterns("__pycache__"))
    for f in ("pyproject.toml", "tox.ini"):
        if os.path.exists(os.path.join("/repo", f)):
            shutil.copy(os.path.join("/repo", f), d)
    return d


def apply_mutant(copy, m):
    path = os.path.join(copy, "src", "clikit", m["file"])
    s = open(path).read()
    if s.count(m["old"]) < 1:
        raise ValueError("mutant does not apply: %s %r" % (m["file"], m["old"][:80]))
    s = s.replace(m["old"], m["new"], 1 if not m.get("all") else -1)
    open(path, "w").write(s)


def main(argv):
    tests = "--tests" in argv
    argv = [a for a in argv if a != "--tests"]
    results = []
    if argv[0] == "--patch":
        prop, patch = argv[1], argv[2]
        copy = make_copy()
        try:
            subprocess.check_call(["patch", "-s", "-p1", "-d", copy, "-i", os.path.abspath(patch)])
            t = run_tests(copy) if tests else "-"
            rc, line, dt = run_check(prop, copy, *(argv[3:4] or ["quick"]))
            print("%s patch=%s tests=[%s] exit=%d %.1fs %s" % (prop, patch, t, rc, dt, line))
        finally:
            shutil.rmtree(copy, ignore_errors=True)
        return 0 if rc == 1 else 1
    prop = argv[0].upper()
    only = int(argv[1]) if len(argv) > 1 else None
    bad = 0
    for i, m in enumerate(MUTANTS.get(prop, [])):
        if only is not None and i != only:
            continue
        copy = make_copy()
        try:
            try:
                apply_mutant(copy, m)
            except ValueError as e:
                bad += 1
                print("%s #%d DOES-NOT-APPLY %s :: %s" % (prop, i, m["name"], e))
                results.append({"property": prop, "mutant": i, "name": m["name"], "status": "DOES-NOT-APPLY"})
                continue
            t = run_tests(copy) if tests else "-"
            rc, line, dt = run_check(prop, copy)
            status = "KILLED" if rc == 1 else ("HARNESS-ERROR" if rc == 2 else "SURVIVED")
            if rc != 1:
                bad += 1
            print("%s #%d %-9s %5.1fs tests=[%s] %s :: %s" % (prop, i, status, dt, t, m["name"], line[:160]))
            results.append({"property": prop, "mutant": i, "name": m["name"], "status": status, "tests": t,
                            "detail": line[:200], "wall_s": round(dt, 1)})
        finally:
            shutil.rmtree(copy, ignore_errors=True)
    out = os.path.join(ROOT, "sensitivity", "%s.json" % prop)
    if only is None and results:
        os.makedirs(os.path.dirname(out), exist_ok=True)
        json.dump(results, open(out, "w"), indent=1)
    return 1 if bad else 0


if __name__ == "__main__":
    sys.exit(main(sys.argv[1:]))
