#!/venv/bin/python
"""Dev tool: confirm a seeded change (a sub-agent's patch + demonstration) in a scratch copy of /repo and run the
property's checks against it.

  tools/seeded.py import <ID> <dir with patch.diff and demo.py> <name> "<what it needs to manifest>"
        copies the files to /verif/seeded/<ID>-<name>/, confirms: demo passes on the clean copy, fails with the patch,
        the repository's tests still pass with the patch; then runs ./check <ID> quick (and thorough if quick misses)
        against the patched copy and writes meta.json
  tools/seeded.py rerun [<ID>-<name> ...]      re-run the checks against stored seeded changes, update meta.json
"""
import json
import os
import shutil
import subprocess
import sys
import time

ROOT = os.path.dirname(os.path.dirname(os.path.abspath(__file__)))
sys.path.insert(0, ROOT)
from tools.sensitivity import make_copy, run_check, run_tests  # noqa: E402


def run_demo(copy, demo):
    env = dict(os.environ, PYTHONPATH=os.path.join(copy, "src"), PYTHONDONTWRITEBYTECODE="1")
    p = subprocess.run(["/venv/bin/python", demo], cwd=copy, env=env, stdout=subprocess.PIPE, stderr=subprocess.STDOUT,
                       text=True, timeout=300)
    return p.returncode, p.stdout[-1500:]


def evaluate(sid, props=None):
    d = os.path.join(ROOT, "seeded", sid)
    meta_path = os.path.join(d, "meta.json")
    meta = json.load(open(meta_path)) if os.path.exists(meta_path) else {}
    prop = meta.get("property") or sid.split("-")[0]
    clean = make_copy()
    patched = make_copy()
    try:
        shutil.copy(os.path.join(d, "demo.py"), os.path.join(clean, "demo.py"))
        shutil.copy(os.path.join(d, "demo.py"), os.path.join(patched, "demo.py"))
        subprocess.check_call(["patch", "-s", "-p1", "-d", patched, "-i", os.path.join(d, "patch.diff")])
        rc_clean, out_clean = run_demo(clean, "demo.py")
        rc_patched, out_patched = run_demo(patched, "demo.py")
        tests = run_tests(patched)
        meta.update({
            "property": prop,
            "demo_on_clean_tree": {"exit": rc_clean},
            "demo_with_patch": {"exit": rc_patched, "tail": out_patched[-600:]},
            "repository_tests_with_patch": tests,
            "confirmed": rc_clean == 0 and rc_patched != 0 and tests.startswith("1 failed, 396 passed"),
        })
        results = {}
        for p in (props or meta.get("checked_with") or [prop]):
            rc, line, dt = run_check(p, patched, "quick")
            results[p] = {"quick": {"exit": rc, "detail": line[:300], "wall_s": round(dt, 1)}}
            if rc != 1:
                rc2, line2, dt2 = run_check(p, patched, "thorough")
                results[p]["thorough"] = {"exit": rc2, "detail": line2[:300], "wall_s": round(dt2, 1)}
        meta["checks"] = results
        meta["detected_by"] = sorted(p for p, r in results.items() if r["quick"]["exit"] == 1 or r.get("thorough", {}).get("exit") == 1)
        meta["ran"] = ["patch -p1 < patch.diff on a scratch copy of /repo", "python demo.py (clean and patched)",
                       "pytest (patched)", "./check <ID> quick [thorough] with CLIKIT_SRC=<patched copy>/src"]
        meta["evaluated_at_repo_commit"] = subprocess.check_output(["git", "-C", "/repo", "log", "--format=%h", "-1"], text=True).strip()
        json.dump(meta, open(meta_path, "w"), indent=1)
        status = "DETECTED by %s" % meta["detected_by"] if meta["detected_by"] else "MISSED"
        print("%s confirmed=%s tests=[%s] %s" % (sid, meta["confirmed"], tests, status))
        for p, r in results.items():
            print("   %s quick: exit %d %s" % (p, r["quick"]["exit"], r["quick"]["detail"][:160]))
            if "thorough" in r:
                print("   %s thorough: exit %d %s" % (p, r["thorough"]["exit"], r["thorough"]["detail"][:160]))
    finally:
        shutil.rmtree(clean, ignore_errors=True)
        shutil.rmtree(patched, ignore_errors=True)


def main(argv):
    if argv[0] == "import":
        prop, src, name, needs = argv[1], argv[2], argv[3], argv[4]
        sid = "%s-%s" % (prop, name)
        d = os.path.join(ROOT, "seeded", sid)
        os.makedirs(d, exist_ok=True)
        shutil.copy(os.path.join(src, "patch.diff"), os.path.join(d, "patch.diff"))
        shutil.copy(os.path.join(src, "demo.py"), os.path.join(d, "demo.py"))
        json.dump({"property": prop, "needs_to_manifest": needs, "source": "independent sub-agent given only the property text",
                   "checked_with": argv[5:] or [prop]}, open(os.path.join(d, "meta.json"), "w"), indent=1)
        evaluate(sid)
    elif argv[0] == "rerun":
        ids = argv[1:] or sorted(os.listdir(os.path.join(ROOT, "seeded")))
        for sid in ids:
            evaluate(sid)


if __name__ == "__main__":
    main(sys.argv[1:])
