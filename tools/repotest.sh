#!/bin/bash
# run the repository's pinned test-suite (guard off) against a source tree (default /repo)
# expected on the baseline: "1 failed, 396 passed, 3 skipped, 1 error" (the failing one is always_fail in BASELINE.json)
cd "${1:-/repo}" && env -u CLIKIT_VERIF PYTHONPATH="${1:-/repo}/src" /venv/bin/python -m pytest -q -p no:cacheprovider --timeout=900 2>&1 | grep -E "passed|failed" | tail -3
