#!/venv/bin/python
"""Regenerate /verif/MANIFEST.json from the table below (claimed checks) -- every property of
properties.jsonl that has no row is listed under not_applicable with its reason."""
import json
import os

ROOT = os.path.dirname(os.path.dirname(os.path.abspath(__file__)))

NOTE = (
    "Trusted base: CPython 3.12 of /venv, Hypothesis 6.168 as generator/shrinker, the oracle code in "
    "/verif/props and /verif/vf. Absence is claimed only inside the bounds stated in the evidence "
    "(exhaustive parts are marked); clikit is imported from /repo/src of the working tree."
)

# id -> (technique, level text, design ref, extra note)
CLAIMED = {
    "C01": (
        "Hypothesis construct-by-inverse round trip: generate format + meaning, spell it from the grammar, parse, compare with an independent expected-Args model",
        "Generated formats x meanings x spellings are parsed (strict/lenient, argv/string) and all four result maps, access by "
        "long/short/position and the set-predicates are compared with a model computed from the meaning alone. Options carry explicit long / short name preferences; every result is also asked about itself (format, raw arguments, script name, command names, defined names and positions).",
        "DESIGN.md 4 C01",
        "",
    ),
    "C02": (
        "bounded-exhaustive token soup x small formats (exception-class validity predicate, strict/lenient differential) + Hypothesis single-fault mutants of valid lines with the fault's documented error class",
        "Every token sequence up to length 3 (quick) / 4 (thorough) over an adversarial 24-token alphabet against 63 small formats, "
        "strict and lenient; plus generated valid lines with one injected fault must raise exactly the documented class.",
        "DESIGN.md 4 C02",
        "",
    ),
    "C03": (
        "Hypothesis command trees x lines against a 25-line reference resolver; metamorphic alias / tail variants; selection also observed through run() with recording handlers",
        "Generated command trees (aliases, default/anonymous/hidden/disabled commands, stacked formats) and lines (valid, wrong token, "
        "unnameable command, undefined, partial, '--' tail) under a bare and the default application config; selected command, undefined / "
        "no-default errors, parsed values and the set of handlers run are compared with the reference model. One command may be added to the running application after other lines were resolved; the configuration may be written in the fluent create_command style; the collections, predicates, lookups and parent links of the built application are compared with the tree.",
        "DESIGN.md 4 C03",
        "Parsability of default candidates is decided with the real parser (C01/C02's subject).",
    ),
    "C04": (
        "fault enumeration: product of handler outcomes (return values, exception kinds x messages x origins, pre-handle listeners) x verbosity x ANSI through Application.run, validity predicates on status / report / handler log; Hypothesis-generated messages",
        "Every listed handler return value and every (exception kind x adversarial message) cell with cycling origins (generated module, "
        "deep and mutual recursion, exec'd / source-less code, cause chains) and pre-handle listener behaviours is run through "
        "Application.run with captured streams: no exception escapes, status in 0..255 with the stated zero/clamp rule, report printed "
        "with the message text, exactly the selected handler invoked once. Handlers come in five shapes (signatures, CallbackHandler, custom handler method); reports are also written to ASCII-only text streams.",
        "DESIGN.md 4 C04",
        "",
        "fault_enumeration",
    ),
    "C05": (
        "Hypothesis operation histories on one parser instance, differential against a fresh parser per step, input snapshots",
        "Histories of valid / faulty / soup parse requests over 1-2 formats on one DefaultArgsParser, every step compared with a "
        "fresh parser and with snapshots of argv, raw args and format listings.",
        "DESIGN.md 4 C05",
        "",
    ),
    "C06": (
        "Hypothesis + bounded-exhaustive operation histories on the builder against a dict-based reference model; builder vs built format vs element-list constructor differential",
        "Op histories (add/set of options, command options, arguments, names) stacked on 0-2 base levels; after every op the "
        "complete public query table of builder, built format and reference model are compared; accept/reject decisions and the "
        "element-list constructor are compared with the model. Formats taken earlier are asked again after every later builder operation (a finished format is a snapshot).",
        "DESIGN.md 4 C06",
        "",
    ),
    "C07": (
        "complete enumeration of flag words, names over a small alphabet and boundary conversions against tables written from the statement; Hypothesis text-form round trips",
        "All 2^13 option and 2^11 argument flag words x short presence x default kinds; all names of length <= 4 over 8 characters "
        "bare and dash-prefixed; conversion of boundary texts and round trips of random ints/floats/booleans. Names also over every Unicode code point; falsy defaults; non-text conversion inputs; set_default on every accepted object.",
        "DESIGN.md 4 C07",
        "",
    ),
    "C09": (
        "enumeration of all switch subsets x base lines with Hypothesis-drawn placements; metamorphic position-invariance and after-separator relations; validity predicates on streams and the IO state seen by the handler; differential help page",
        "All 2^7 subsets of the global switches (long/short spellings) inserted at generated positions after the command path of 6 base "
        "lines under the default application config: quiet silence, verbosity level and visible message levels, ANSI forced / removed, "
        "question default without reading, help page equal to the directly rendered CommandHelp, version text, status 0 without the "
        "handler, identical results for all placements, and no effect when the same tokens stand after '--'. Runs draw streams that do / do not claim ANSI support; sessions of several runs on one application; handlers ask four kinds of questions and write to a section they create.",
        "DESIGN.md 4 C09",
        "",
    ),
    "C10": (
        "complete enumeration of the gate table (reflected entry points x verbosity x flags x quiet x formatter x stream kind) against the stated gate predicate",
        "Every public writer with a flags parameter found by reflection on IO/Output/SectionOutput (plus section clear/overwrite) is "
        "called on fresh objects for every verbosity, flag word, quiet setting and formatter; the marker reaches the stream iff the "
        "stated predicate holds and the stream is untouched otherwise. Texts include empty / newline-only / blank ones; setter histories include set_stream and set_formatter; in section histories a closed write must leave the stream unchanged.",
        "DESIGN.md 4 C10",
        "",
    ),
    "C11": (
        "Hypothesis markup trees with per-character style model (ANSI vs plain vs tag-stripped differential), exhaustive style x supply-way enumeration against an independent SGR table, reflected line writers, Hypothesis indentation programs against an indent-stack model",
        "Generated balanced markup is rendered by both formatters and through decorated/undecorated outputs and compared per character "
        "with the intended text and style; all 41472 styles x 3 ways of supplying them; every line-writing method; nested indentation "
        "scopes with exceptional exits compared with a model of the whole stream. Messages are also formatted with a per-call style; StyleSet edit histories; styles added after first use; indentation calls not used as scopes.",
        "DESIGN.md 4 C11",
        "",
    ),
    "C13": (
        "Hypothesis command trees x terminal widths rendered by ApplicationHelp / CommandHelp; validity predicates (renders, completeness against the tree, hidden/disabled absence, line width); differential 'help <path>' vs '<path> --help' vs '<path> -h' vs the directly rendered page of the reference-selected command",
        "Generated trees with unique names, options and arguments of every kind (descriptions absent/short/long/multi-line, typed defaults, "
        "help texts) under the default application config at widths from the computed minimum to 200, ANSI and plain: every page renders "
        "(twice, identically), lists all non-hidden commands, arguments and options with both names and no hidden/disabled command, keeps "
        "every line within the width, and the three ways of asking for help through run() print the page of the selected command. Application pages also vary display name, version and help text; option name preferences; re-rendering after other widths.",
        "DESIGN.md 4 C13",
        "",
    ),
    "C14": (
        "Hypothesis tables rendered by Table.render, validity predicates on the rendered text (rectangle, width bound, aligned separators) and a per-column read-back of the cell text against the input; bounded-exhaustive CellWrapper.fit sweep",
        "Generated tables (1-6 x 1-6, size-biased cells up to 1500 characters, long words, tagged words, header or not) in the four "
        "predefined styles and customised variants with visible padding / separators, alignments, widths 20-200, indentation 0-8, ANSI "
        "and plain: render succeeds, all lines equally wide and within the terminal, separators at the same positions in every line, "
        "every column's characters read back in order, table unmodified, second render identical. The same table object is rendered repeatedly and at another width in between; rows are supplied through add_rows / set_rows / add_row / set_row.",
        "DESIGN.md 4 C14",
        "Known finding (KNOWN-FINDING line): a tagged word cut by the format-unaware wrapper prints its tag literally.",
    ),
    "C15": (
        "explicit-state enumeration of section operation sequences + Hypothesis sequences, emitted bytes replayed on a terminal emulator and compared with a stacked-contents model",
        "All applicable sequences of create/write_line/overwrite/clear/clear(k) over up to 3 sections (depth 5 quick, 6-7 thorough) at "
        "terminal width 10 and random ones up to 40 ops at widths 5-20; after every op the emulated screen and cursor must equal the "
        "model's stacked section contents; the same sequences on a plain output must give plain appended lines. Also on indented outputs, with writes suppressed by the verbosity gate, and with a PlainFormatter on a stream that claims ANSI support.",
        "DESIGN.md 4 C15",
        "The terminal emulator (vf/term.py) defines the terminal semantics assumed (deferred auto-wrap, tab stops of 8).",
    ),
    "C16": (
        "explicit enumeration of call sequences + complete (max, step) sweep + Hypothesis sequences under a virtual clock; every stream write recorded with its virtual time, frames parsed with the format's placeholder grammar, stream replayed on a terminal emulator",
        "Call sequences (start/advance/set_progress/display/clear/finish/set_message/clock ticks) for ANSI, plain, section and quiet "
        "outputs under a virtual clock: bar width, current/max/percent truthfulness (exact integer arithmetic), throttle interval in "
        "virtual time, forced draws at the maximum and on finish, final frame, residue-free terminal line, plain one-frame-per-line, quiet silence.",
        "DESIGN.md 4 C16",
        "The clock is virtual: the module attribute progress_bar.time is rebound from outside (no source hook).",
    ),
    "C17": (
        "Hypothesis histories of command lines on one application object, differential against a freshly built application per run; fresh-interpreter differential over construction orders of table styles; double renders",
        "2-6 (thorough 10) command lines of 14 kinds (valid, failing, help variants, version, raising handlers) on one application, each "
        "run compared (status, streams, handler arguments) with a fresh identical application and the leniency of every command config "
        "compared with its initial value; the same with one shared parser instance; all construction orders of the predefined table styles "
        "with one of them customised, in fresh interpreters; components and consecutive traces rendered repeatedly.",
        "DESIGN.md 4 C17",
        "Style orders run in short-lived child interpreters (vf/style_child.py) importing clikit from the tree under test.",
    ),
    "C18": (
        "bounded-exhaustive answer scripts x choice lists x modes against a reference dialogue model (value-then-index validation, attempt budget, end of input) with read / prompt-write budgets; enumerated confirmation and non-interactive tables; Hypothesis choice lists",
        "All answer scripts up to 3 (thorough 4) lines over a 15-entry adversarial alphabet for 4 choice lists x single/multi-select x "
        "3 defaults x 4 attempt limits, each ending in end of input: returned value / error, number of lines read and number of errors "
        "printed equal the reference dialogue model; membership; index/value interchangeability; confirmation truth table; "
        "non-interactive questions return the default with zero reads and zero bytes written.",
        "DESIGN.md 4 C18",
        "Question._has_stty_available is patched to False from outside (no stty reachable); termination by read / write budgets.",
    ),
    "C19": (
        "schedule enumeration: a deterministic baton-passing scheduler + virtual clock substituted for the component's threading / time module objects; stateless depth-first enumeration of all schedules within a delay bound, Hypothesis-drawn schedules beyond it, writes replayed on a terminal emulator; exhaustive manual-mode call sequences",
        "The spinner thread and the caller's thread (set_message / work / raise inside 'with indicator.auto()') are run under every "
        "schedule with at most 2 (thorough 3) deviations from the default policy at the granularity of stream writes, sleeps, event and "
        "thread operations, plus random schedules: the spinner is always stopped and joined, the body's exception propagates, the end "
        "message is the last frame and the terminal line never holds two frames; manual mode: all call sequences with clock ticks, "
        "throttle interval and frame content.",
        "DESIGN.md 4 C19",
        "The module attributes progress_indicator.threading / .time are rebound from outside (no source hook); CPython's own scheduler is not examined.",
    ),
    "C20": (
        "Hypothesis-generated source files and exceptions rendered by ExceptionTrace, validity predicates on the rendered text (message, numbering, marker, verbatim source lines against the generated source, ignore filter); corpus sweep of the highlighter",
        "Exceptions raised from generated on-disk sources (filler from an adversarial line pool, CRLF, missing trailing newline), exec'd and "
        "source-less code, cause chains and recursion, rendered at every verbosity, ANSI/plain, UTF-8 on/off, simple on/off: render returns, "
        "class name and message lines present in order, snippet numbered consecutively with exactly the raising line marked and "
        "single-line-token source lines verbatim, ignored frames hidden unless debug; highlighter over /repo/src and stdlib files at every 7th line.",
        "DESIGN.md 4 C20",
        "Generated sources live under /verif/.work/<tag>-<pid>/ and are removed at the end of the run.",
    ),
    "C12": (
        "bounded-exhaustive operation sequences + Hypothesis op lists against a list-based reference model of the dispatcher",
        "All 11^5 (quick) / 11^7 (thorough) register/dispatch sequences, each with and without queries after every step, plus "
        "random sequences up to 40 ops; invocation order, stop-propagation, isolation and all queries compared with the model.",
        "DESIGN.md 4 C12",
        "",
    ),
    "C08": (
        "bounded-exhaustive string enumeration + Hypothesis round-trip (quote/unquote inverse) + differential string-vs-argv",
        "Every string up to length 5 (quick) / 7 (thorough) over the tokenizer's special characters is tokenised "
        "(totality, termination guard, whitespace-split model, option-token prefix model); generated token lists are "
        "quoted and must tokenise back exactly; generated command lines are given as string and as argv to parser and resolver.",
        "DESIGN.md 4 C08",
        "",
    ),
}

NOT_YET = "check not built yet in this session (design in DESIGN.md section 4); no claim is made"


def main():
    props = [json.loads(l) for l in open(os.path.join(ROOT, "properties.jsonl"))]
    checks = []
    na = []
    for p in props:
        pid = p["id"]
        if pid in CLAIMED:
            tech, text, ref, extra = CLAIMED[pid][:4]
            category = CLAIMED[pid][4] if len(CLAIMED[pid]) > 4 else "exploration"
            checks.append(
                {
                    "property_id": pid,
                    "quick_cmd": "./check %s quick" % pid,
                    "thorough_cmd": "./check %s thorough" % pid,
                    "evidence_file": "evidence/%s.json" % pid,
                    "replay_cmd_template": "./check %s --replay {path}" % pid,
                    "engine": "vf",
                    "level_claimed": {"category": category, "text": text, "design_ref": ref},
                    "level_note": (NOTE + " " + extra).strip(),
                    "technique": tech,
                }
            )
        else:
            na.append({"property_id": pid, "reason": NOT_YET})
    m = {
        "version": 1,
        "setup_cmd": "./setup.sh",
        "hooks": {
            "guard": "CLIKIT_VERIF",
            "enable": "no source hooks exist: clikit is pure Python and is imported from /repo/src by every check; "
            "the clock/thread/terminal substitutions are applied from outside (DESIGN.md 2.2). "
            "./check exports CLIKIT_VERIF=1 for the interface's sake only.",
            "baseline_off_cmd": "cd /repo && env -u CLIKIT_VERIF /venv/bin/python -m pytest -ra -q -p no:cacheprovider --timeout=900 --continue-on-collection-errors",
            "source_commits": [],
            "add_only": True,
        },
        "engines": [
            {
                "name": "vf",
                "path": "vf/",
                "serves_properties": sorted(CLAIMED),
                "kind_free_text": "property-based testing: Hypothesis strategies / op-sequence generation, bounded-exhaustive "
                "enumeration, reference models, shrinking to replay files (./check <ID> --replay <file>)",
            }
        ],
        "checks": checks,
        "not_applicable": na,
        "notes": "exit 0 held (KNOWN-FINDING lines possible), 1 VIOLATION, 2 harness error. VERIF_SEED selects the seed. "
        "known_findings.json lists known/fixed findings; regress/<ID>/ holds shrunk cases replayed first in every run.",
    }
    with open(os.path.join(ROOT, "MANIFEST.json"), "w") as f:
        json.dump(m, f, indent=1)
        f.write("\n")
    print("claimed:", len(checks), "not claimed:", len(na))


if __name__ == "__main__":
    main()
