#!/venv/bin/python
"""Dev tool: record a finding in known_findings.json (never used at run time).
  tools/record.py fixed <replay.json> <commit> <regress-name> "<what failed>"
  tools/record.py known <replay.json> "<what fails>"
"""
import json, os, shutil, sys
ROOT = os.path.dirname(os.path.dirname(os.path.abspath(__file__)))
kind, replay = sys.argv[1], sys.argv[2]
rec = json.load(open(replay))
kf = json.load(open(os.path.join(ROOT, "known_findings.json")))
if kind == "fixed":
    commit, name, what = sys.argv[3], sys.argv[4], sys.argv[5]
    d = os.path.join(ROOT, "regress", rec["property"]); os.makedirs(d, exist_ok=True)
    dst = os.path.join(d, name + ".json"); shutil.copy(replay, dst)
    kf["findings"].append({"status": "fixed", "property": rec["property"], "signature": rec["signature"],
                           "commit": commit, "what": what, "regress": os.path.relpath(dst, ROOT),
                           "record": "fixed: property=%s %s %s" % (rec["property"], commit, what)})
else:
    what = sys.argv[3]
    kf["findings"].append({"status": "known", "property": rec["property"], "signature": rec["signature"],
                           "what": what, "example": {"part": rec["part"], "case": rec["case"]},
                           "record": "known: property=%s %s" % (rec["property"], what)})
json.dump(kf, open(os.path.join(ROOT, "known_findings.json"), "w"), indent=1); print("recorded", rec["signature"])
