# dev tool: record which clikit functions are entered (see tools/apicov.py). Active only with VERIF_APICOV set.
import os
import sys

_path = os.environ.get("VERIF_APICOV")
if _path:
    _seen = set()

    def _prof(frame, event, arg):
        if event != "call":
            return
        code = frame.f_code
        fn = code.co_filename
        if "/clikit/" not in fn:
            return
        key = (fn, getattr(code, "co_qualname", code.co_name), code.co_firstlineno)
        if key in _seen:
            return
        _seen.add(key)
        try:
            with open(_path, "a") as f:
                f.write("%s\t%s\t%d\n" % key)
        except Exception:
            pass

    sys.setprofile(_prof)
    try:
        import threading

        threading.setprofile(_prof)
    except Exception:
        pass
