#!/venv/bin/python
"""Dev tool: which functions of clikit do the quick checks never enter?

  tools/apicov.py run [IDs...]     run the quick checks with a call recorder (sitecustomize + sys.setprofile), write
                                   /tmp/apicov/<ID>.txt
  tools/apicov.py report           list the functions defined under /repo/src/clikit that no recorded check entered
"""
import ast
import glob
import os
import subprocess
import sys

ROOT = os.path.dirname(os.path.dirname(os.path.abspath(__file__)))
OUT = "/tmp/apicov"


def run(ids):
    os.makedirs(OUT, exist_ok=True)
    for p in ids:
        path = os.path.join(OUT, p + ".txt")
        if os.path.exists(path):
            os.remove(path)
        env = dict(os.environ, VERIF_APICOV=path, VERIF_NO_EVIDENCE="1",
                   PYTHONPATH=os.path.join(ROOT, "tools", "apicov_site") + ":" + os.environ.get("PYTHONPATH", ""))
        r = subprocess.run([os.path.join(ROOT, "check"), p, "quick"], cwd=ROOT, env=env, stdout=subprocess.PIPE,
                           stderr=subprocess.STDOUT, text=True)
        print(p, r.stdout.strip().splitlines()[-1][:150])


def report():
    entered = set()
    for f in glob.glob(os.path.join(OUT, "*.txt")):
        for line in open(f):
            fn, qual, ln = line.rstrip("\n").split("\t")
            entered.add((os.path.realpath(fn), int(ln)))
    missing = {}
    for path in sorted(glob.glob("/repo/src/clikit/**/*.py", recursive=True)):
        tree = ast.parse(open(path).read())

        def walk(node, prefix):
            for ch in ast.iter_child_nodes(node):
                if isinstance(ch, (ast.FunctionDef, ast.AsyncFunctionDef)):
                    line = ch.lineno
                    lines = {line} | {d.lineno for d in ch.decorator_list}
                    if not any((os.path.realpath(path), l) in entered for l in lines):
                        missing.setdefault(path, []).append(prefix + ch.name)
                    walk(ch, prefix + ch.name + ".")
                elif isinstance(ch, ast.ClassDef):
                    walk(ch, prefix + ch.name + ".")

        walk(tree, "")
    for path, names in missing.items():
        print(path.replace("/repo/src/clikit/", ""), ":", ", ".join(names))


if __name__ == "__main__":
    if sys.argv[1] == "run":
        run(sys.argv[2:] or ["C%02d" % i for i in range(1, 21)])
    else:
        report()
