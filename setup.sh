#!/bin/bash
# offline setup: make sure hypothesis is importable by /venv/bin/python (it is pre-installed there;
# otherwise it is installed from the offline wheelhouse into /verif/.deps). Nothing is fetched.
cd "$(dirname "$0")" || exit 1
export PIP_NO_INDEX=1
PY=/venv/bin/python
if ! PYTHONPATH="$PWD/.deps" $PY -c "import hypothesis" 2>/dev/null; then
  $PY -m pip install --no-index --find-links /opt/veriftools/wheels --target "$PWD/.deps" hypothesis || exit 1
fi
if ! PYTHONPATH="$PWD/.deps" $PY -c "import atheris" 2>/dev/null; then
  # optional: only the supplementary coverage-guided campaigns of the thorough tier use it
  $PY -m pip install --no-index --find-links /opt/veriftools/wheels --target "$PWD/.deps" atheris >/dev/null 2>&1 || echo "atheris not installed (optional)"
fi
mkdir -p evidence
PYTHONPATH="$PWD/.deps" $PY -c "import hypothesis, sys; sys.path.insert(0,'/repo/src'); import clikit; print('setup ok: hypothesis', hypothesis.__version__, 'clikit from', clikit.__file__)"
