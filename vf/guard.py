"""Termination guard: a wall-clock alarm only *triggers* a deterministic re-run under a line-event
budget; only exceeding the (generous, deterministic) step budget is reported as non-termination."""
import signal
import sys
import threading


class NonTermination(Exception):
    pass


class _Alarm(BaseException):
    pass


def _on_alarm(signum, frame):
    raise _Alarm()


def run_steps(fn, args, steps):
    """Run fn(*args) under a line-event budget (deterministic)."""
    count = [0]

    def tracer(frame, event, arg):
        if event == "line":
            count[0] += 1
            if count[0] > steps:
                raise NonTermination("more than %d line events" % steps)
        return tracer

    old = sys.gettrace()
    sys.settrace(tracer)
    try:
        return fn(*args)
    finally:
        sys.settrace(old)


def run_guarded(fn, args=(), wall=5.0, steps=300000):
    """fn(*args); if it runs longer than `wall` seconds it is interrupted and re-run under the
    step budget: NonTermination is raised only when that deterministic budget is exceeded."""
    if threading.current_thread() is not threading.main_thread():
        return fn(*args)
    old = signal.signal(signal.SIGALRM, _on_alarm)
    signal.setitimer(signal.ITIMER_REAL, wall)
    try:
        try:
            return fn(*args)
        finally:
            signal.setitimer(signal.ITIMER_REAL, 0)
    except _Alarm:
        return run_steps(fn, args, steps)
    finally:
        signal.signal(signal.SIGALRM, old)
