"""Coverage-guided campaigns (atheris / libFuzzer) for the byte-like properties C08 and C02, thorough tier only.

usage: python -m vf.fuzz <c08|c02> <out.json> -runs=N -seed=S [-max_len=L]

The semantic oracle runs inside the target. On the first failing input the decoded case is written to <out.json>
and the process aborts (libFuzzer reports the crash); the parent re-executes that case through the regular part
function of the property, so the verdict, the signature and the replay file come from the same clause code as the
generated search. State is reset per iteration by construction (fresh parser / tokenizer objects per input)."""
import json
import os
import sys

ROOT = os.path.dirname(os.path.dirname(os.path.abspath(__file__)))
sys.path.insert(0, ROOT)
deps = os.path.join(ROOT, ".deps")
if os.path.isdir(deps):
    sys.path.insert(0, deps)

import atheris  # noqa: E402

SRC = os.environ.get("CLIKIT_SRC", "/repo/src")
sys.path.insert(0, SRC)
# clikit has to be imported under the instrumentation hook BEFORE anything else imports it
with atheris.instrument_imports(include=["clikit"]):
    import clikit.args  # noqa: F401
    import clikit.args.default_args_parser  # noqa: F401
    import clikit.args.token_parser  # noqa: F401

from vf import runner  # noqa: E402

runner.setup_path()

from vf.runner import Ctx, Violation  # noqa: E402

TARGET = sys.argv[1]
OUT = sys.argv[2]
count = [0]


def record(case, part):
    with open(OUT, "w") as f:
        json.dump({"part": part, "case": case, "executions": count[0]}, f)


def target_c08(data):
    from props import c08

    count[0] += 1
    fdp = atheris.FuzzedDataProvider(data)
    mode = fdp.ConsumeIntInRange(0, 2)
    ctx = Ctx("C08", "thorough", 0, known_entries=[])
    if mode == 0:
        s = fdp.ConsumeUnicodeNoSurrogates(64)
        try:
            c08.check_total(ctx, s, part="total-random")
        except Violation:
            record(s, "total-random")
            raise
    else:
        n = fdp.ConsumeIntInRange(0, 4)
        tokens, styles, seps = [], [], []
        for _ in range(n):
            t = fdp.ConsumeUnicodeNoSurrogates(fdp.ConsumeIntInRange(0, 6))
            # constructive repair of inexpressible tokens, as in the Hypothesis generator
            out = []
            for i, ch in enumerate(t):
                out.append(ch)
                if ch == "\\" and (i + 1 == len(t) or t[i + 1] in "'\""):
                    out.append("n")
            t = "".join(out)
            tokens.append(t)
            opts = ["single", "double"] + (["bare"] if c08.bare_ok(t) else [])
            styles.append(opts[fdp.ConsumeIntInRange(0, len(opts) - 1)])
        for _ in range(max(0, n - 1)):
            seps.append(c08.WS[fdp.ConsumeIntInRange(0, len(c08.WS) - 1)] * fdp.ConsumeIntInRange(1, 2))
        case = {"tokens": tokens, "styles": styles, "seps": seps, "lead": "", "trail": ""}
        try:
            c08.check_roundtrip(ctx, case)
        except Violation:
            record(case, "roundtrip")
            raise


def target_c02(data):
    from props import c02

    count[0] += 1
    fdp = atheris.FuzzedDataProvider(data)
    fi = fdp.ConsumeIntInRange(0, len(c02.formats()) - 1)
    n = fdp.ConsumeIntInRange(0, 7)
    tokens = []
    for _ in range(n):
        kind = fdp.ConsumeIntInRange(0, 3)
        if kind == 0:
            tokens.append(c02.ALPHABET[fdp.ConsumeIntInRange(0, len(c02.ALPHABET) - 1)])
        elif kind == 1:
            tokens.append(fdp.ConsumeUnicodeNoSurrogates(fdp.ConsumeIntInRange(0, 8)))
        elif kind == 2:
            name = ["known", "jay", "unknown", ""][fdp.ConsumeIntInRange(0, 3)]
            tokens.append("--" + name + "=" + fdp.ConsumeUnicodeNoSurrogates(fdp.ConsumeIntInRange(0, 6)))
        else:
            tokens.append("-" + ["k", "j", "u", "kj"][fdp.ConsumeIntInRange(0, 3)] + fdp.ConsumeUnicodeNoSurrogates(fdp.ConsumeIntInRange(0, 4)))
    case = {"format": fi, "tokens": tokens}
    ctx = Ctx("C02", "thorough", 0, known_entries=[])
    try:
        c02.check_soup(ctx, case, part="soup-long")
    except Violation:
        record(case, "soup-long")
        raise


def main():
    target = {"c08": target_c08, "c02": target_c02}[TARGET]
    argv = [sys.argv[0]] + sys.argv[3:]  # corpus dir first, then libFuzzer flags
    atheris.Setup(argv, target)
    try:
        atheris.Fuzz()
    finally:
        pass


if __name__ == "__main__":
    main()
