"""Deterministic baton-passing scheduler with a virtual clock.

Logical threads are real threads, but only the holder of the baton runs. Scheduling points: every stream write,
sleep, Event.set / is_set, Thread.start / join and thread exit. At each point a chooser picks the next thread
among the runnable ones (a sleeping thread is runnable: choosing it advances the clock to its wake-up time).
The schedule is the list of choices; once it is exhausted a default policy is used (keep running the current
thread if it is awake, else the awake thread with the lowest id, else the sleeper that wakes first)."""
import threading


class Abort(BaseException):
    """Raised inside logical threads to unwind them when a run is aborted (step budget)."""


class LThread(object):
    def __init__(self, tid, name):
        self.tid = tid
        self.name = name
        self.gate = threading.Event()
        self.done = False
        self.wake_at = None  # virtual time, when sleeping
        self.join_target = None
        self.join_timed = False  # join(timeout): also runnable once the virtual clock reaches wake_at
        self.real = None
        self.error = None


class Sched(object):
    def __init__(self, schedule=(), max_steps=3000, start_time=1000.0):
        self.schedule = list(schedule)
        self.pos = 0
        self.max_steps = max_steps
        self.now = start_time
        self.threads = []
        self.current = None
        self.decisions = []  # (number of options, chosen index, index the default policy would choose)
        self.steps = 0
        self.aborted = False
        self.lock = threading.Lock()
        self.trace = []  # (tid, kind)
        main = LThread(0, "main")
        main.real = threading.current_thread()
        self.threads.append(main)
        self.current = main

    # -- helpers ---------------------------------------------------------------------------------
    def me(self):
        real = threading.current_thread()
        for t in self.threads:
            if t.real is real:
                return t
        raise RuntimeError("unknown thread")

    def runnable(self):
        out = []
        for t in self.threads:
            if t.done:
                continue
            if t.join_target is not None:
                if t.join_target.done:
                    if t.join_timed:
                        t.wake_at = None  # the target ended before the timeout: the joiner continues at once
                elif not t.join_timed:
                    continue
            out.append(t)
        return out

    def _default(self, options, cur):
        awake = [t for t in options if t.wake_at is None]
        if cur is not None and cur in awake:
            return options.index(cur)
        if awake:
            return options.index(awake[0])
        return options.index(min(options, key=lambda t: (t.wake_at, t.tid)))

    def point(self, kind):
        """A scheduling point reached by the running thread."""
        me = self.me()
        if self.aborted:
            raise Abort()
        self.trace.append((me.tid, kind))
        self.steps += 1
        if self.steps > self.max_steps:
            self.aborted = True
            self._release_all()
            raise Abort()
        options = self.runnable()
        if not options:
            self.aborted = True
            self._release_all()
            raise Abort()
        cur = me if (me in options and me.wake_at is None) else None
        if len(options) == 1:
            idx = 0
        else:
            default = self._default(options, cur)
            if self.pos < len(self.schedule):
                idx = self.schedule[self.pos] % len(options)
            else:
                idx = default
            self.pos += 1
            self.decisions.append((len(options), idx, default))
        nxt = options[idx]
        if nxt.wake_at is not None:
            self.now = max(self.now, nxt.wake_at)
            nxt.wake_at = None
        if nxt.join_target is not None and nxt.join_target.done:
            nxt.join_target = None
        if nxt is me:
            return
        self.current = nxt
        me.gate.clear()
        nxt.gate.set()
        if not me.done:
            me.gate.wait()
            if self.aborted:
                raise Abort()

    def _release_all(self):
        for t in self.threads:
            t.gate.set()

    # -- thread lifecycle ------------------------------------------------------------------------
    def spawn(self, target, name):
        t = LThread(len(self.threads), name)

        def body():
            t.gate.wait()
            try:
                if not self.aborted:
                    target()
            except Abort:
                pass
            except BaseException as e:  # noqa: B902
                t.error = e
            finally:
                t.done = True
                if not self.aborted:
                    try:
                        self.point("exit")
                    except Abort:
                        pass

        t.real = threading.Thread(target=body, name="lt-" + name, daemon=True)
        self.threads.append(t)
        t.real.start()
        return t

    def finish(self):
        """Called by the main thread at the end of a run: let every other thread unwind."""
        self.aborted = True
        self._release_all()
        for t in self.threads[1:]:
            t.real.join(5)

    def leaked(self):
        return [t.name for t in self.threads[1:] if t.real.is_alive()]


class FakeTimeModule(object):
    def __init__(self, sched):
        self._s = sched
        self.point_on_time = False  # when set, reading the clock is a scheduling point too

    def time(self):
        if self.point_on_time:
            self._s.point("time")
        return self._s.now

    def sleep(self, d):
        me = self._s.me()
        me.wake_at = self._s.now + max(d, 0)
        self._s.point("sleep")
        # when we get here we were chosen: the clock has been advanced to our wake-up time
        me.wake_at = None


class FakeEvent(object):
    def __init__(self, sched):
        self._s = sched
        self._flag = False

    def set(self):
        self._s.point("event.set")
        self._flag = True

    def is_set(self):
        self._s.point("event.is_set")
        return self._flag

    def clear(self):
        self._flag = False

    def wait(self, timeout=None):
        while not self._flag:
            self._s.point("event.wait")
        return True


class FakeThread(object):
    def __init__(self, sched, target=None, args=(), kwargs=None, name=None, daemon=None):
        self._s = sched
        self._target = target
        self._args = args
        self._kwargs = kwargs or {}
        self._lt = None
        self.name = name or "thread"

    def start(self):
        self._lt = self._s.spawn(lambda: self._target(*self._args, **self._kwargs), self.name)
        self._s.point("thread.start")

    def join(self, timeout=None):
        me = self._s.me()
        if self._lt is None or self._lt.done:
            self._s.point("thread.join")
            return
        me.join_target = self._lt
        if timeout is not None:
            # a bounded join: like a sleeper, the joiner can be resumed when the clock reaches its deadline
            me.join_timed = True
            me.wake_at = self._s.now + max(timeout, 0)
        self._s.point("thread.join")
        me.join_target = None
        me.join_timed = False
        me.wake_at = None

    def is_alive(self):
        return self._lt is not None and not self._lt.done


class FakeThreadingModule(object):
    def __init__(self, sched):
        self._s = sched

    def Thread(self, *a, **kw):
        return FakeThread(self._s, *a, **kw)

    def Event(self):
        return FakeEvent(self._s)

    def current_thread(self):
        return threading.current_thread()


class SchedStream(object):
    """An OutputStream whose every write is a scheduling point; records (tid, virtual time, text)."""

    def __init__(self, sched, ansi=False):
        self._s = sched
        self.log = []
        self._ansi = ansi

    def write(self, string):
        self._s.point("write")
        self.log.append((self._s.me().tid, self._s.now, string))

    def fetch(self):
        return "".join(t for _, _, t in self.log)

    def flush(self):
        pass

    def supports_ansi(self):
        return self._ansi

    def supports_utf8(self):
        return True

    def close(self):
        pass

    def is_closed(self):
        return False


def preemptions(choices, trace):
    """Number of decisions that deviate from the default policy (a preemption of the running thread, or a delay of
    an awake thread in favour of a sleeping one): the delay bound of the exploration."""
    n = 0
    for (k, idx, default), c in zip(trace, choices):
        if c % k != default:
            n += 1
    return n


def explore(run_fn, bound, max_runs):
    """Stateless depth-first enumeration of schedules with at most `bound` preemptions.
    run_fn(prefix) executes one run and returns its list of decisions. Yields (prefix, decisions)."""
    stack = [[]]
    seen = 0
    while stack and seen < max_runs:
        prefix = stack.pop()
        decisions = run_fn(prefix)
        seen += 1
        yield prefix, decisions
        full = [d[1] for d in decisions]
        for i in range(len(prefix), len(decisions)):
            k, chosen, cur = decisions[i]
            for alt in range(k):
                if alt == chosen:
                    continue
                cand = full[:i] + [alt]
                if preemptions(cand, decisions[: i + 1]) <= bound:
                    stack.append(cand)
