"""Common machinery: tiers, seeds, Hypothesis settings, sharding, evidence, exit codes.

A property module (props/cNN.py) provides

    PARTS        {part name: fn(ctx, case)}  -- executes ONE json-able case through the oracle clauses
    run(ctx)     generates / enumerates cases per tier and feeds them to the part functions
    RULE         text: how cases are generated and what makes one non-trivial
    ASSUMPTIONS  list of text

Inside a part function: ctx.case(part, case, nt, classes) counts the case, ctx.fail(...) reports a
failing clause (raises Violation unless the signature is a listed known finding).
"""
import collections
import hashlib
import importlib
import json
import multiprocessing
import os
import sys
import time
import traceback

ROOT = os.path.dirname(os.path.dirname(os.path.abspath(__file__)))
REPO_SRC = os.environ.get("CLIKIT_SRC", "/repo/src")
PROP_MODULES = {}


def setup_path():
    if REPO_SRC not in sys.path:
        sys.path.insert(0, REPO_SRC)
    if ROOT not in sys.path:
        sys.path.insert(0, ROOT)
    import clikit

    if not os.path.abspath(clikit.__file__).startswith(os.path.abspath(REPO_SRC)):
        raise HarnessError(
            "clikit imported from %s, expected under %s" % (clikit.__file__, REPO_SRC)
        )


class HarnessError(Exception):
    pass


class Violation(Exception):
    def __init__(self, record):
        Exception.__init__(self, "%s %s" % (record.get("signature"), record.get("observed")))
        self.record = record


def canon(obj):
    return json.dumps(obj, sort_keys=True, ensure_ascii=True, default=repr)


def h64(obj):
    return int.from_bytes(hashlib.blake2b(canon(obj).encode(), digest_size=8).digest(), "big")


def innermost_clikit_frame(exc):
    tb = exc.__traceback__
    found = None
    while tb is not None:
        fn = tb.tb_frame.f_code.co_filename
        if "/clikit/" in fn.replace("\\", "/"):
            found = "%s:%s" % (os.path.basename(fn), tb.tb_frame.f_code.co_name)
        tb = tb.tb_next
    return found or "outside-clikit"


def exc_info(exc):
    return {
        "type": type(exc).__name__,
        "message": str(exc)[:300],
        "frame": innermost_clikit_frame(exc),
    }


def load_known():
    path = os.path.join(ROOT, "known_findings.json")
    if not os.path.exists(path):
        return []
    with open(path) as f:
        return json.load(f)["findings"]


def load_module(prop):
    if prop not in PROP_MODULES:
        PROP_MODULES[prop] = importlib.import_module("props.%s" % prop.lower())
    return PROP_MODULES[prop]


class Ctx(object):
    MAX_SAMPLES_PER_PART = 4

    def __init__(self, prop, tier, seed, known_entries=None, budget_s=None):
        self.prop = prop
        self.tier = tier
        self.seed = seed
        entries = known_entries if known_entries is not None else load_known()
        self.known = {
            e["signature"]: e for e in entries if e["property"] == prop and e["status"] == "known"
        }
        self.evaluations = 0
        self.nt_hashes = set()
        self.nt_by_construction = 0
        self.classes = collections.Counter()
        self.parts = collections.OrderedDict()
        self.samples = collections.OrderedDict()
        self.excluded_known = collections.Counter()
        self.excluded_samples = {}
        self.notes = []
        self.exhaustive_parts = {}
        self.t0 = time.time()
        self.budget_s = budget_s
        self.inconclusive = []

    # ---- counting -----------------------------------------------------------------
    def case(self, part, case, nt, classes=(), distinct_by_construction=False):
        self.evaluations += 1
        p = self.parts.get(part)
        if p is None:
            p = self.parts[part] = {"evaluations": 0, "nontrivial": 0}
        p["evaluations"] += 1
        for c in classes:
            self.classes[c] += 1
        if nt:
            p["nontrivial"] += 1
            if distinct_by_construction:
                self.nt_by_construction += 1
            else:
                self.nt_hashes.add(h64([part, case]))
            s = self.samples.setdefault(part, [])
            if len(s) < self.MAX_SAMPLES_PER_PART - 1:
                s.append(case)
            elif p["nontrivial"] < 20000 or p["nontrivial"] % 64 == 0:
                # last slot: the largest non-trivial case seen (sampled sparsely on huge enumerations)
                size = len(repr(case))
                if size > p.get("_big", -1):
                    p["_big"] = size
                    if len(s) < self.MAX_SAMPLES_PER_PART:
                        s.append(case)
                    else:
                        s[-1] = case
        elif part not in self.samples:
            self.samples[part] = [case]

    def count(self, cls, n=1):
        self.classes[cls] += n

    def exhaustive(self, part, flag=True, what=None):
        self.exhaustive_parts[part] = {"exhaustive": flag, "space": what}

    def note(self, text):
        if text not in self.notes:
            self.notes.append(text)

    def time_left(self):
        if self.budget_s is None:
            return 1e9
        return self.budget_s - (time.time() - self.t0)

    # ---- failures -----------------------------------------------------------------
    def fail(self, part, clause, case, expected=None, observed=None, sig=None, exc=None):
        signature = clause
        if sig:
            signature += ":" + sig
        info = None
        if exc is not None:
            info = exc_info(exc)
            signature += ":%s@%s" % (info["type"], info["frame"])
        if signature in self.known:
            self.excluded_known[signature] += 1
            self.excluded_samples.setdefault(signature, case)
            return
        raise Violation(
            {
                "property": self.prop,
                "part": part,
                "clause": clause,
                "signature": signature,
                "case": case,
                "expected": _j(expected),
                "observed": _j(observed),
                "exception": info,
                "seed": self.seed,
                "tier": self.tier,
            }
        )

    # ---- generators ---------------------------------------------------------------
    def hyp(self, strategy, body, n, salt=0, shrink=True):
        """Run body(case) on n Hypothesis-drawn cases; Violation propagates after shrinking."""
        from hypothesis import HealthCheck, Phase, given, seed, settings

        phases = [Phase.generate] + ([Phase.shrink] if shrink else [])

        @seed((self.seed * 1000003 + salt) & 0xFFFFFFFF)
        @settings(
            max_examples=n,
            database=None,
            deadline=None,
            derandomize=False,
            report_multiple_bugs=False,
            suppress_health_check=list(HealthCheck),
            print_blob=False,
            phases=phases,
        )
        @given(strategy)
        def test(case):
            body(case)

        test()

    def hyp_sharded(self, name, n, salt=0, shards=16):
        """Like hyp() for the entry mod.HYP[name] = (strategy_factory(ctx), body(ctx, case)), but split over worker
        processes when n is large (each shard draws n/shards cases with its own salt)."""
        mod = load_module(self.prop)
        strategy_factory, body = mod.HYP[name]
        if n < 1000 or shards <= 1:
            return self.hyp(strategy_factory(self), lambda c: body(self, c), n, salt=salt)
        per = (n + shards - 1) // shards
        self.parallel("__hyp__", [(name, per, salt * 1000 + k + 1) for k in range(shards)])

    def fuzz(self, target, runs, max_len=96, timeout_s=900):
        """Coverage-guided campaign (atheris) for this property, oracle inside the target (vf/fuzz.py). A failing
        input is re-executed through the property's regular part function, which raises the Violation."""
        import re
        import subprocess
        import tempfile

        try:
            deps = os.path.join(ROOT, ".deps")
            if os.path.isdir(deps) and deps not in sys.path:
                sys.path.insert(0, deps)
            import atheris  # noqa: F401
        except ImportError:
            self.note("atheris is not installed: the coverage-guided campaign was skipped")
            self.inconclusive.append("fuzz:%s skipped (atheris missing)" % target)
            return
        out = tempfile.NamedTemporaryFile(prefix="fuzz-%s-" % target, suffix=".json", dir=None, delete=False).name
        os.unlink(out)
        corpus = tempfile.mkdtemp(prefix="corpus-%s-" % target)
        env = dict(os.environ, PYTHONPATH=os.pathsep.join([ROOT, os.path.join(ROOT, ".deps")]))
        cmd = [sys.executable, "-m", "vf.fuzz", target, out, corpus, "-runs=%d" % runs, "-seed=%d" % (self.seed or 1),
               "-max_len=%d" % max_len, "-print_final_stats=1", "-artifact_prefix=%s/" % corpus]
        try:
            p = subprocess.run(cmd, cwd=ROOT, env=env, stdout=subprocess.PIPE, stderr=subprocess.STDOUT, text=True,
                               timeout=timeout_s)
            log = p.stdout
        except subprocess.TimeoutExpired as e:
            log = (e.stdout or "") if isinstance(e.stdout, str) else ""
            self.inconclusive.append("fuzz:%s stopped by the time budget" % target)
        finally:
            import shutil

            shutil.rmtree(corpus, ignore_errors=True)
        m = re.search(r"stat::number_of_executed_units:\s*(\d+)", log) or re.search(r"Done (\d+) runs", log)
        execs = int(m.group(1)) if m else 0
        part = "fuzz-" + target
        pp = self.parts.setdefault(part, {"evaluations": 0, "nontrivial": 0})
        pp["evaluations"] += execs
        self.evaluations += execs
        cov = re.findall(r"cov: (\d+)", log)
        self.note("atheris campaign %s: %d executions, final coverage counter %s" % (target, execs, cov[-1] if cov else "?"))
        if os.path.exists(out):
            with open(out) as f:
                rec = json.load(f)
            os.unlink(out)
            mod = load_module(self.prop)
            mod.PARTS[rec["part"]](self, rec["case"])  # raises the Violation
            raise HarnessError("the fuzzer's failing input did not reproduce: %r" % (rec,))
        if execs == 0:
            raise HarnessError("atheris campaign produced no executions:\n" + log[-1500:])

    def enum(self, cases, body):
        for c in cases:
            body(c)

    def parallel(self, func_name, args, procs=None):
        """Run getattr(module, func_name)(subctx, arg) for each arg in worker processes; merge."""
        procs = procs or min(16, os.cpu_count() or 1, max(1, len(args)))
        jobs = [(self.prop, self.tier, self.seed, func_name, a, i) for i, a in enumerate(args)]
        if procs == 1 or len(jobs) == 1:
            results = [_worker(j) for j in jobs]
        else:
            mp = multiprocessing.get_context("fork")
            with mp.Pool(procs) as pool:
                results = pool.map(_worker, jobs, chunksize=1)
        first_violation = None
        for r in results:
            if "error" in r:
                raise HarnessError("worker failed:\n" + r["error"])
            self.merge(r["dump"])
            if r["violation"] is not None and first_violation is None:
                first_violation = r["violation"]
        if first_violation is not None:
            raise Violation(first_violation)

    def dump(self):
        return {
            "evaluations": self.evaluations,
            "nt_hashes": self.nt_hashes,
            "nt_by_construction": self.nt_by_construction,
            "classes": dict(self.classes),
            "parts": self.parts,
            "samples": self.samples,
            "excluded_known": dict(self.excluded_known),
            "excluded_samples": self.excluded_samples,
            "notes": self.notes,
            "exhaustive_parts": self.exhaustive_parts,
            "inconclusive": self.inconclusive,
        }

    def merge(self, d):
        self.evaluations += d["evaluations"]
        self.nt_hashes |= d["nt_hashes"]
        self.nt_by_construction += d["nt_by_construction"]
        self.classes.update(d["classes"])
        for k, v in d["parts"].items():
            p = self.parts.setdefault(k, {"evaluations": 0, "nontrivial": 0})
            p["evaluations"] += v["evaluations"]
            p["nontrivial"] += v["nontrivial"]
            p["_big"] = max(p.get("_big", -1), v.get("_big", -1))
        for k, v in d["samples"].items():
            s = self.samples.setdefault(k, [])
            for c in v:
                if len(s) < self.MAX_SAMPLES_PER_PART:
                    s.append(c)
        self.excluded_known.update(d["excluded_known"])
        for k, v in d["excluded_samples"].items():
            self.excluded_samples.setdefault(k, v)
        for n in d["notes"]:
            self.note(n)
        for k, v in d["exhaustive_parts"].items():
            if k in self.exhaustive_parts and not (
                self.exhaustive_parts[k]["exhaustive"] and v["exhaustive"]
            ):
                v = dict(v, exhaustive=False)
            self.exhaustive_parts[k] = v
        self.inconclusive += d["inconclusive"]

    # ---- evidence -----------------------------------------------------------------
    def write_evidence(self, mod, violations, violation_record=None):
        samples = []
        for part, cs in self.samples.items():
            for c in cs:
                samples.append({"part": part, "case": c})
        ex = self.exhaustive_parts
        cov = {
            "evaluations": self.evaluations,
            "distinct_nontrivial": len(self.nt_hashes) + self.nt_by_construction,
            "rule": getattr(mod, "RULE", ""),
            "samples": samples[:40],
            "parts": {
                k: {a: b for a, b in v.items() if not a.startswith("_")} for k, v in self.parts.items()
            },
            "classes": dict(sorted(self.classes.items())),
            "excluded_known": dict(self.excluded_known),
            "excluded_known_samples": self.excluded_samples,
            "exhaustive": bool(ex) and all(v["exhaustive"] for v in ex.values())
            and set(ex) == set(self.parts),
            "exhaustive_parts": ex,
            "inconclusive": self.inconclusive,
            "notes": self.notes,
        }
        if violation_record is not None:
            cov["violation"] = violation_record
        ev = {
            "property_id": self.prop,
            "tier": self.tier,
            "seed": self.seed,
            "level": getattr(mod, "LEVEL", "exploration"),
            "coverage": cov,
            "assumptions": list(getattr(mod, "ASSUMPTIONS", [])),
            "wall_s": round(time.time() - self.t0, 3),
            "violations": violations,
        }
        if os.environ.get("VERIF_NO_EVIDENCE"):
            return  # sensitivity runs against a scratch copy must not overwrite real evidence
        d = os.path.join(ROOT, "evidence")
        os.makedirs(d, exist_ok=True)
        tmp = os.path.join(d, "%s.json.tmp" % self.prop)
        with open(tmp, "w") as f:
            json.dump(ev, f, indent=1, sort_keys=False, default=repr)
            f.write("\n")
        os.replace(tmp, os.path.join(d, "%s.json" % self.prop))


def _j(x):
    try:
        json.dumps(x)
        return x
    except (TypeError, ValueError):
        return repr(x)


def _worker(job):
    prop, tier, seed, func_name, arg, idx = job
    try:
        setup_path()
        mod = load_module(prop)
        sub = Ctx(prop, tier, seed)
        viol = None
        try:
            if func_name == "__hyp__":
                name, n, salt = arg
                strategy_factory, body = mod.HYP[name]
                sub.hyp(strategy_factory(sub), lambda c: body(sub, c), n, salt=salt)
            else:
                getattr(mod, func_name)(sub, arg)
        except Violation as v:
            viol = v.record
        return {"dump": sub.dump(), "violation": viol}
    except BaseException:
        return {"error": traceback.format_exc()}
