"""A small terminal emulator: grid with cursor, newline (next row, column 0), carriage return, printable
characters with deferred auto-wrap at the width, tab stops every 8, cursor up (ESC[nA), erase below
(ESC[J / ESC[0J), erase line (ESC[K, ESC[2K); SGR is ignored. Any other control sequence raises Unmodelled
(a harness error) so that an unknown code is never read as a pass or as a violation."""
import re


class Unmodelled(Exception):
    pass


CSI = re.compile("\x1b\\[([0-9;?]*)([A-Za-z])")


class Terminal(object):
    def __init__(self, width):
        self.width = width
        self.rows = [[]]
        self.r = 0
        self.c = 0
        self.pending_wrap = False

    def _row(self):
        while self.r >= len(self.rows):
            self.rows.append([])
        return self.rows[self.r]

    def _put(self, ch):
        if self.pending_wrap:
            self.r += 1
            self.c = 0
            self.pending_wrap = False
        row = self._row()
        while len(row) < self.c:
            row.append(" ")
        if self.c < len(row):
            row[self.c] = ch
        else:
            row.append(ch)
        if self.c == self.width - 1:
            self.pending_wrap = True
        else:
            self.c += 1

    def feed(self, data):
        i = 0
        n = len(data)
        while i < n:
            ch = data[i]
            if ch == "\x1b":
                m = CSI.match(data, i)
                if not m:
                    raise Unmodelled("escape at %d: %r" % (i, data[i:i + 8]))
                self._csi(m.group(1), m.group(2))
                i = m.end()
                continue
            if ch == "\n":
                self.r += 1
                self.c = 0
                self.pending_wrap = False
                self._row()
            elif ch == "\r":
                self.c = 0
                self.pending_wrap = False
            elif ch == "\t":
                if not self.pending_wrap:
                    target = min((self.c // 8 + 1) * 8, self.width - 1)
                    row = self._row()
                    while len(row) < target:
                        row.append(" ")
                    self.c = target
            elif ch < " " and ch not in "\n\r\t":
                raise Unmodelled("control character %r" % ch)
            else:
                self._put(ch)
            i += 1

    def _csi(self, params, final):
        self_params = params
        if final == "m":
            return
        n = int(params) if params.isdigit() else None
        if final == "A":
            self.r = max(0, self.r - (n if n is not None else 1))
            self.pending_wrap = False
            if self.c > self.width - 1:
                self.c = self.width - 1
        elif final == "J" and self_params in ("", "0"):
            row = self._row()
            del row[self.c:]
            del self.rows[self.r + 1:]
            self.pending_wrap = False
        elif final == "K" and self_params in ("", "0"):
            row = self._row()
            del row[self.c:]
        elif final == "K" and self_params == "2":
            row = self._row()
            del row[:]
        else:
            raise Unmodelled("CSI %r %r" % (params, final))

    def lines(self):
        """Rows as strings, right-stripped, trailing blank rows dropped."""
        out = ["".join(r).rstrip(" ") for r in self.rows]
        while out and out[-1] == "":
            out.pop()
        return out

    def cursor(self):
        return self.r, self.c


def chunk(line, width):
    """Rows a logical line occupies on a terminal with deferred auto-wrap (tabs already expanded by the caller)."""
    if line == "":
        return [""]
    return [line[i:i + width] for i in range(0, len(line), width)]
