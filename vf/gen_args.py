"""G-format / G-assignment / G-spelling / M-args: formats, meanings, their spellings and the expected Args.

Everything is a plain JSON-able description; build_format() turns a description into clikit objects.

format   {"levels": [[elem, ...], ...]}   levels[0] is the outermost base, levels[-1] the format's own level
elem     {"k":"opt","long","short"|None,"mode":"none|req|opt|multi","type":"s|b|i|f","nullable",
          "default": None|scalar|list}
         {"k":"arg","name","kind":"req|opt|multi|multireq","type","nullable","default"}
         {"k":"name","name","aliases":[...]}
"""
from hypothesis import strategies as st

LONGS = ["foo", "bar", "baz-x", "opt1", "qux", "num", "k2", "verbose-mode"]
SHORTS = list("fbxoqnkFBX")
# cmd11 / cmd21: legal argument names that look like the placeholders the parser uses internally for command names
ARGNAMES = ["a1", "a2", "src", "dst", "file-name", "rest", "cmd11", "cmd21"]
CMDNAMES = ["server", "add", "remote"]
ALIASES = ["srv", "ad", "rm", "up", "s2"]
TYPES = "sbif"

INF = float("inf")

# (typed value, text) pools; None values only for nullable elements
VALUES = {
    "s": [("x", "x"), ("hello", "hello"), ("a=b", "a=b"), ("with space", "with space"), ("é中", "é中"),
          ("0", "0"), ("=", "="), ("x-y", "x-y"), ("true", "true"), ("one\ntwo", "one\ntwo"), ("end\n", "end\n"),
          ("tab\there", "tab\there"), ("'q\"", "'q\""), ("=x", "=x"), ("==c", "==c")],  # round 9: leading equals signs
    "b": [(True, "true"), (True, "1"), (True, "yes"), (True, "on"), (False, "false"), (False, "0"),
          (False, "no"), (False, "off")],
    "i": [(0, "0"), (-3, "-3"), (7, "007"), (42, "42"), (5, "+5"), (2 ** 70 + 1, str(2 ** 70 + 1)), (-1, "-1")],
    "f": [(1000.0, "1e3"), (-2.5, "-2.5"), (INF, "inf"), (0.5, ".5"), (3.0, "3"), (0.1, "0.1"), (-INF, "-inf")],
}
# extra string texts that are only legal as positionals (after '--' when option-like)
ARG_ONLY_STRINGS = [("", ""), ("-dash", "-dash"), ("--", "--"), ("--foo", "--foo"), ("-", "-"), ("-f", "-f"),
                    ("--foo=1", "--foo=1")]
DEFAULTS = {"s": "dflt", "b": True, "i": 7, "f": 2.5}


def flag_bits(cls, e):
    t = {"s": cls.STRING, "b": cls.BOOLEAN, "i": cls.INTEGER, "f": cls.FLOAT}[e["type"]]
    if e.get("nullable"):
        t |= cls.NULLABLE
    if e.get("prefer") == "long":
        t |= cls.PREFER_LONG_NAME  # a display preference only: the short spelling stays valid
    elif e.get("prefer") == "short":
        t |= cls.PREFER_SHORT_NAME
    return t


def build_element(e):
    from clikit.api.args.format import Argument, CommandName, Option

    if e["k"] == "opt":
        mode = {"none": Option.NO_VALUE, "req": Option.REQUIRED_VALUE, "opt": Option.OPTIONAL_VALUE,
                "multi": Option.MULTI_VALUED}[e["mode"]]
        flags = mode | flag_bits(Option, e)
        d = e.get("default")
        if isinstance(d, list):
            d = list(d)
        return Option(e["long"], e.get("short"), flags, e.get("desc"), d)
    if e["k"] == "arg":
        kind = {"req": Argument.REQUIRED, "opt": Argument.OPTIONAL, "multi": Argument.OPTIONAL | Argument.MULTI_VALUED,
                "multireq": Argument.REQUIRED | Argument.MULTI_VALUED}[e["kind"]]
        flags = kind | flag_bits(Argument, e)
        d = e.get("default")
        if isinstance(d, list):
            d = list(d)
        return Argument(e["name"], flags, e.get("desc"), d)
    if e["k"] == "name":
        return CommandName(e["name"], list(e.get("aliases", [])))
    raise ValueError(e)


def build_format(fmt, via_builder=False):
    from clikit.api.args.format import ArgsFormat, ArgsFormatBuilder, Argument, CommandName, Option

    base = None
    for level in fmt["levels"]:
        elements = [build_element(e) for e in level]
        if via_builder:
            b = ArgsFormatBuilder(base)
            for el in elements:
                if isinstance(el, CommandName):
                    b.add_command_name(el)
                elif isinstance(el, Option):
                    b.add_option(el)
                elif isinstance(el, Argument):
                    b.add_argument(el)
            base = b.format
        else:
            base = ArgsFormat(elements, base)
    return base


def flat(fmt):
    return [e for level in fmt["levels"] for e in level]


def fmt_options(fmt):
    return [e for e in flat(fmt) if e["k"] == "opt"]


def fmt_args(fmt):
    return [e for e in flat(fmt) if e["k"] == "arg"]


def fmt_names(fmt):
    return [e for e in flat(fmt) if e["k"] == "name"]


# --------------------------------------------------------------------------------------- formats
@st.composite
def option_st(draw, long_name, short):
    mode = draw(st.sampled_from(["none", "none", "none", "req", "opt", "multi"]))
    typ = draw(st.sampled_from(TYPES))
    nullable = draw(st.booleans())
    default = None
    if mode in ("req", "opt") and draw(st.booleans()):
        default = DEFAULTS[typ]
    elif mode == "multi" and draw(st.booleans()):
        default = [DEFAULTS[typ]]
    e = {"k": "opt", "long": long_name, "short": short, "mode": mode, "type": typ, "nullable": nullable,
         "default": default}
    prefer = draw(st.sampled_from([None, None, "long"] + (["short"] if short else [])))
    if prefer:
        e["prefer"] = prefer
    return e


@st.composite
def format_st(draw, max_options=5, max_args=4, max_names=2, max_levels=3):
    n_opt = draw(st.integers(0, max_options))
    longs = draw(st.permutations(LONGS))[:n_opt]
    shorts = draw(st.permutations(SHORTS))
    opts = []
    for i, ln in enumerate(longs):
        short = shorts[i] if draw(st.integers(0, 3)) else None
        opts.append(draw(option_st(ln, short)))
    n_arg = draw(st.integers(0, max_args))
    names = draw(st.permutations(ARGNAMES))[:n_arg]
    # legal order: req* opt* [multi]  |  req* multireq
    n_req = draw(st.integers(0, n_arg))
    args = []
    for i, nm in enumerate(names):
        last = i == n_arg - 1
        typ = draw(st.sampled_from(TYPES))
        nullable = draw(st.booleans())
        if i < n_req:
            kind = "req"
            if last and draw(st.integers(0, 3)) == 0:
                kind = "multireq"
        else:
            kind = "opt"
            if last and draw(st.integers(0, 2)) == 0:
                kind = "multi"
        default = None
        if kind == "opt" and draw(st.booleans()):
            default = DEFAULTS[typ]
        elif kind == "multi" and draw(st.booleans()):
            default = [DEFAULTS[typ]]
        args.append({"k": "arg", "name": nm, "kind": kind, "type": typ, "nullable": nullable, "default": default})
    n_names = draw(st.integers(0, max_names))
    cnames = draw(st.permutations(CMDNAMES))[:n_names]
    aliases = draw(st.permutations(ALIASES))
    names_el = []
    ai = 0
    for cn in cnames:
        k = draw(st.integers(0, 2))
        names_el.append({"k": "name", "name": cn, "aliases": list(aliases[ai:ai + k])})
        ai += k
    # split into stacked levels: names/args keep their order across levels, options go anywhere
    n_levels = draw(st.integers(1, max_levels))
    levels = [[] for _ in range(n_levels)]
    for seq in (names_el, args):
        cuts = sorted(draw(st.lists(st.integers(0, len(seq)), min_size=n_levels - 1, max_size=n_levels - 1)))
        bounds = [0] + cuts + [len(seq)]
        for li in range(n_levels):
            levels[li].extend(seq[bounds[li]:bounds[li + 1]])
    for o in opts:
        levels[draw(st.integers(0, n_levels - 1))].append(o)
    return {"levels": levels}


# ----------------------------------------------------------------------------- meanings and spellings
def flip(draw, num, den):
    """True with probability num/den under Hypothesis; a plain two-way choice when enumerating."""
    if getattr(draw, "enumerating", False):
        return bool(draw(st.integers(0, 1)))
    return draw(st.integers(0, den - 1)) < num


SMALL_VALUES = {"s": [("x", "x"), ("a=b", "a=b")], "b": [(True, "yes"), (False, "0")], "i": [(7, "007"), (-3, "-3")],
                "f": [(0.5, ".5"), (-2.5, "-2.5")]}


def value_pool(e, for_arg, small=False):
    if small:
        pool = list(SMALL_VALUES[e["type"]])
        if e["type"] == "s" and for_arg:
            pool.append(("-dash", "-dash"))
        if e.get("nullable"):
            pool.append((None, "null"))
        return pool
    pool = list(VALUES[e["type"]])
    if e["type"] == "s" and for_arg:
        pool = pool + ARG_ONLY_STRINGS
    if e.get("nullable"):
        pool.append((None, "null"))
    elif e["type"] == "s":
        pool.append(("null", "null"))
    return pool


def option_like(t):
    return t.startswith("-")


def needs_separator(t):
    """A positional that must stand after '--': it would otherwise be read as an option or as the separator."""
    return t.startswith("-") and t != "-"


def expected_maps(fmt, given_opts, given_args):
    """M-args: the four maps the statement talks about, from the meaning alone."""
    opts_set = dict(given_opts)
    opts_all = dict(opts_set)
    for o in fmt_options(fmt):
        if o["long"] not in opts_all:
            if o["mode"] == "none":
                opts_all[o["long"]] = False
            elif o["mode"] == "multi":
                opts_all[o["long"]] = list(o["default"]) if o["default"] is not None else []
            else:
                opts_all[o["long"]] = o["default"]
    args_set = dict(given_args)
    args_all = {}
    for a in fmt_args(fmt):
        if a["name"] in args_set:
            args_all[a["name"]] = args_set[a["name"]]
        elif a["kind"] in ("multi", "multireq"):
            args_all[a["name"]] = list(a["default"]) if a["default"] is not None else []
        else:
            args_all[a["name"]] = a["default"]
    return {"options_set": opts_set, "options_all": opts_all, "arguments_set": args_set, "arguments_all": args_all}


def _line(draw, fmt, structured=False, omit=None, options_after_names=False, allowed_options=None, small_pools=False):
    """A meaning for fmt and one spelling of it. Returns a dict with 'tokens', 'expect', 'classes' and the
    structured 'units' (used by the C02 fault mutations)."""
    classes = set()
    opts = fmt_options(fmt)
    flags_units = []  # candidates for grouping: (option,)
    units = []  # {"kind": "opt", "tokens": [...], "long":..., "value": typed, "bare_optional": bool}
    excluded_unspecified = 0
    for o in opts:
        if allowed_options is not None and o["long"] not in allowed_options:
            continue
        if not flip(draw, 4 if o["mode"] == "none" else 1, 5 if o["mode"] == "none" else 2):
            continue
        if o["mode"] == "none":
            flags_units.append(o)
            continue
        n = draw(st.integers(1, 2 if small_pools else 3)) if o["mode"] == "multi" else 1
        for _ in range(n):
            bare = False
            if o["mode"] == "opt" and flip(draw, 1, 4):
                if o["default"] is not None or o["nullable"]:
                    bare = True
                else:
                    excluded_unspecified += 1
            if bare:
                units.append({"kind": "opt", "long": o["long"], "short": o["short"], "value": o["default"],
                              "text": None, "bare_optional": True, "opt": o})
            else:
                v, t = draw(st.sampled_from(value_pool(o, False, small_pools)))
                units.append({"kind": "opt", "long": o["long"], "short": o["short"], "value": v, "text": t,
                              "bare_optional": False, "opt": o})
    # group some flags
    groups = []
    singles = []
    shorted = [o for o in flags_units if o["short"]]
    if len(shorted) >= 1 and flip(draw, 3, 4):
        k = draw(st.integers(1, len(shorted)))
        grp = list(draw(st.permutations(shorted))[:k])
        groups.append(grp)
        singles = [o for o in flags_units if o not in grp]
        if k >= 2:
            classes.add("grouped-flags")
    else:
        singles = flags_units
    # spell value options
    spelled = []
    for u in units:
        o = u["opt"]
        forms = []
        if u["bare_optional"]:
            forms = ["long-bare"] + (["short-bare"] if o["short"] else [])
        else:
            forms = ["long-eq"]
            if o["short"]:
                forms.append("short-attached")
            if u["text"] != "" and not option_like(u["text"]):
                forms.append("long-detached")
                if o["short"]:
                    forms.append("short-detached")
        form = draw(st.sampled_from(forms))
        if form == "long-eq":
            toks = ["--%s=%s" % (o["long"], u["text"])]
            classes.add("attached-value")
        elif form == "short-attached":
            toks = ["-%s%s" % (o["short"], u["text"])]
            classes.add("attached-value")
        elif form == "long-detached":
            toks = ["--" + o["long"], u["text"]]
            classes.add("detached-value")
        elif form == "short-detached":
            toks = ["-" + o["short"], u["text"]]
            classes.add("detached-value")
        elif form == "long-bare":
            toks = ["--" + o["long"]]
            classes.add("bare-optional")
        else:
            toks = ["-" + o["short"]]
            classes.add("bare-optional")
        spelled.append({"kind": "opt", "tokens": toks, "long": o["long"], "value": u["value"], "mode": o["mode"],
                        "bare_optional": u["bare_optional"], "form": form})
    for o in singles:
        form = draw(st.sampled_from(["long"] + (["short"] if o["short"] else [])))
        spelled.append({"kind": "opt", "tokens": ["--" + o["long"] if form == "long" else "-" + o["short"]],
                        "long": o["long"], "value": True, "mode": "none", "bare_optional": False, "form": "flag-" + form})
    for grp in groups:
        tok = "-" + "".join(o["short"] for o in grp)
        unit = {"kind": "opt", "tokens": [tok], "long": [o["long"] for o in grp], "value": True, "mode": "group",
                "bare_optional": False, "form": "group"}
        # optionally let the group end in a value-taking option that was spelled in a short form
        cands = [s for s in spelled if s["form"] in ("short-attached", "short-detached", "short-bare")]
        if cands and draw(st.booleans()):
            s = draw(st.sampled_from(cands))
            spelled.remove(s)
            unit["tokens"] = [tok + s["tokens"][0][1:]] + s["tokens"][1:]
            unit["tail"] = {"long": s["long"], "value": s["value"], "mode": s["mode"]}
            unit["bare_optional"] = s["bare_optional"]
            unit["form"] = "group+" + s["form"]
            classes.add("group-with-value")
        spelled.append(unit)
    spelled = list(draw(st.permutations(spelled)))

    # positionals: command names, then argument values
    names = fmt_names(fmt)
    n_given = len(names)
    if omit is not None:
        n_given = len(names) - omit
        if omit:
            classes.add("omitted-command-names")
    elif names and flip(draw, 1, 3):
        n_given = draw(st.integers(0, len(names) - 1))
        classes.add("omitted-command-names")
    pos = []
    for nm in names[:n_given]:
        sp = draw(st.sampled_from([nm["name"]] + list(nm["aliases"])))
        if sp != nm["name"]:
            classes.add("alias")
        pos.append({"kind": "name", "text": sp})
    forbidden = set()
    for nm in names[n_given:]:
        forbidden.add(nm["name"])
        forbidden.update(nm["aliases"])
    args = fmt_args(fmt)
    given_args = {}
    stop = False
    for a in args:
        if stop:
            break
        if a["kind"] in ("req", "opt"):
            if a["kind"] == "opt" and flip(draw, 1, 4):
                stop = True
                break
            v, t = draw(st.sampled_from(value_pool(a, True, small_pools)))
            pos.append({"kind": "arg", "text": t, "name": a["name"]})
            given_args[a["name"]] = v
        else:
            n = draw(st.integers(1 if a["kind"] == "multireq" else 0, 2 if small_pools else 3))
            vals = []
            for _ in range(n):
                v, t = draw(st.sampled_from(value_pool(a, True, small_pools)))
                pos.append({"kind": "arg", "text": t, "name": a["name"]})
                vals.append(v)
            if n:
                given_args[a["name"]] = vals
                classes.add("multi-argument")
    if any(p["kind"] == "arg" and p["text"] in forbidden for p in pos):
        # constructive repair: spell all command names (nothing is omitted, nothing can be mistaken)
        pos = [{"kind": "name", "text": nm["name"]} for nm in names] + [p for p in pos if p["kind"] == "arg"]
        classes.discard("omitted-command-names")
    # separator
    first_protected = None
    for i, p in enumerate(pos):
        if p["kind"] == "arg" and needs_separator(p["text"]):
            first_protected = i
            break
    sep = None
    if first_protected is not None:
        lo = len([p for p in pos if p["kind"] == "name"])
        sep = draw(st.integers(min(lo, first_protected), first_protected))
        classes.add("protected-positional")
    elif flip(draw, 1, 4):
        sep = draw(st.integers(len([p for p in pos if p["kind"] == "name"]) if options_after_names else 0, len(pos)))
    head = pos if sep is None else pos[:sep]
    tail = [] if sep is None else pos[sep:]
    if sep is not None:
        classes.add("separator")
        if tail:
            classes.add("separator-tail")
    # interleave option units among the head positionals
    first_slot = min(len([p for p in head if p["kind"] == "name"]), len(head)) if options_after_names else 0
    slots = sorted(draw(st.lists(st.integers(first_slot, len(head)), min_size=len(spelled), max_size=len(spelled))))
    seq = []
    si = 0
    for i in range(len(head) + 1):
        while si < len(spelled) and slots[si] == i:
            seq.append(spelled[si])
            si += 1
        if i < len(head):
            seq.append({"kind": "pos", "tokens": [head[i]["text"]], "what": head[i]["kind"]})
    # bare optional-value options must be followed by an option-like token, '--' or the end
    while True:
        moved = [u for i, u in enumerate(seq) if u.get("bare_optional") and i + 1 < len(seq)
                 and not option_like(seq[i + 1]["tokens"][0])]
        if not moved:
            break
        seq = [u for u in seq if not any(u is m for m in moved)] + moved
        classes.add("bare-optional-moved")
    for i, u in enumerate(seq):
        if u["kind"] == "opt" and 0 < i < len(seq) - 1 and seq[i - 1]["kind"] == "pos" and seq[i + 1]["kind"] == "pos":
            classes.add("option-between-positionals")
    if sep is not None:
        seq.append({"kind": "sep", "tokens": ["--"]})
        for p in tail:
            seq.append({"kind": "pos", "tokens": [p["text"]], "what": p["kind"], "after_sep": True})
    # expected options, multi-values in final command-line order
    given_opts = {}
    for u in seq:
        if u["kind"] != "opt":
            continue
        items = []
        if u["mode"] == "group":
            items = [(ln, True, "none") for ln in u["long"]]
            if "tail" in u:
                items.append((u["tail"]["long"], u["tail"]["value"], u["tail"]["mode"]))
        else:
            items = [(u["long"], u["value"], u["mode"])]
        for ln, v, mode in items:
            if mode == "multi":
                given_opts.setdefault(ln, []).append(v)
                classes.add("multi-option")
            else:
                given_opts[ln] = v
    for v in list(given_opts.values()) + list(given_args.values()):
        vs = v if isinstance(v, list) else [v]
        if any(not isinstance(x, str) for x in vs if x is not True):
            classes.add("typed-value")
    tokens = [t for u in seq for t in u["tokens"]]
    out = {
        "tokens": tokens,
        "expect": expected_maps(fmt, given_opts, given_args),
        "classes": sorted(classes),
        "excluded_unspecified": excluded_unspecified,
    }
    if structured:
        out["units"] = [{k: v for k, v in u.items() if k in ("kind", "tokens", "long", "mode", "what", "form",
                                                             "bare_optional", "after_sep")} for u in seq]
    return out


line_st = st.composite(_line)


class Exhausted(Exception):
    pass


class EnumDraw(object):
    """A stand-in for Hypothesis' draw() that takes its choices from a prescribed list and records, for every
    choice point, how many alternatives there were - so that _line() (the very same spelling grammar) can be
    enumerated exhaustively by depth-first re-execution instead of sampled."""

    enumerating = True

    def __init__(self, prefix):
        self.prefix = list(prefix)
        self.trace = []  # (number of alternatives, chosen)

    def _choose(self, n):
        if n <= 0:
            raise Exhausted()
        i = len(self.trace)
        c = self.prefix[i] if i < len(self.prefix) else 0
        self.trace.append((n, c))
        return c

    def __call__(self, strategy):
        import itertools

        s = strategy
        while type(s).__name__ == "LazyStrategy":
            s = s.wrapped_strategy
        name = type(s).__name__
        if name == "SampledFromStrategy":
            els = list(s.elements)
            return els[self._choose(len(els))]
        if name == "IntegersStrategy":
            return s.start + self._choose(s.end - s.start + 1)
        if name == "BooleansStrategy":
            return bool(self._choose(2))
        if name == "PermutationStrategy":
            vals = list(s.values)
            out = []
            while vals:
                out.append(vals.pop(self._choose(len(vals))) if len(vals) > 1 else vals.pop())
            return out
        if name == "ListStrategy":
            if s.min_size != s.max_size:
                raise TypeError("only fixed-size lists can be enumerated")
            return [self(s.element_strategy) for _ in range(s.min_size)]
        if name == "JustStrategy":
            return s.value
        if name == "BuildsStrategy" and not s.args and not s.kwargs:
            return s.target()
        raise TypeError("cannot enumerate %s" % name)


def enumerate_lines(fmt, limit=None, state=None, **kw):
    """All spellings of all meanings of fmt that _line() can produce (deduplicated by token list).
    Yields line dicts; stops after `limit` runs (then the enumeration is not complete)."""
    stack = [[]]
    seen = set()
    runs = 0
    while stack:
        if limit is not None and runs >= limit:
            if state is not None:
                state["complete"] = False
            return
        prefix = stack.pop()
        d = EnumDraw(prefix)
        line = _line(d, fmt, **kw)
        runs += 1
        for i in range(len(prefix), len(d.trace)):
            n, c = d.trace[i]
            for alt in range(1, n):
                stack.append([t[1] for t in d.trace[:i]] + [alt])
        key = (tuple(line["tokens"]), canon_expect(line["expect"]))
        if key in seen:
            continue
        seen.add(key)
        yield line
    if state is not None:
        state["complete"] = True


def canon_expect(e):
    import json

    return json.dumps(e, sort_keys=True, default=repr)


@st.composite
def case_st(draw, structured=False, **fmt_kw):
    fmt = draw(format_st(**fmt_kw))
    line = draw(line_st(fmt, structured=structured))
    case = {"fmt": fmt, "via_builder": draw(st.booleans()), "tokens": line["tokens"], "expect": line["expect"],
            "classes": line["classes"], "excluded_unspecified": line["excluded_unspecified"]}
    if structured:
        case["units"] = line["units"]
    return case


def typed_equal(a, b):
    """Equality that distinguishes 1 / True / 1.0."""
    if type(a) is not type(b):
        return False
    if isinstance(a, list):
        return len(a) == len(b) and all(typed_equal(x, y) for x, y in zip(a, b))
    if isinstance(a, dict):
        return set(a) == set(b) and all(typed_equal(a[k], b[k]) for k in a)
    return a == b
