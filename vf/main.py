"""Entry point: python -m vf.main <ID> quick|thorough | <ID> --replay <file>."""
import glob
import json
import os
import sys
import time
import traceback

from vf import runner
from vf.runner import ROOT, Ctx, HarnessError, Violation

QUICK_BUDGET_S = 240
THOROUGH_BUDGET_S = 3000


def write_replay(rec):
    d = os.path.join(ROOT, "replays", rec["property"])
    os.makedirs(d, exist_ok=True)
    name = "".join(ch if ch.isalnum() or ch in "-_." else "_" for ch in rec["signature"])[:80]
    path = os.path.join(d, "%s-seed%s.json" % (name, rec.get("seed", 0)))
    with open(path, "w") as f:
        json.dump(rec, f, indent=1, default=repr)
        f.write("\n")
    return path


def replay_record(mod, ctx, rec):
    fn = mod.PARTS[rec["part"]]
    fn(ctx, rec["case"])


def main(argv):
    if len(argv) < 2:
        print("usage: check <ID> quick|thorough | <ID> --replay <file>")
        return 2
    prop = argv[0].upper()
    try:
        runner.setup_path()
        mod = runner.load_module(prop)
    except Exception:
        traceback.print_exc()
        print("HARNESS-ERROR property=%s import failed" % prop)
        return 2
    seed = int(os.environ.get("VERIF_SEED", "1") or "1")

    if argv[1] == "--replay":
        path = argv[2]
        with open(path) as f:
            rec = json.load(f)
        ctx = Ctx(prop, "quick", rec.get("seed", seed), known_entries=[])
        try:
            replay_record(mod, ctx, rec)
        except Violation as v:
            print("replay still fails: %s" % v.record["signature"])
            print("  expected: %r" % (v.record["expected"],))
            print("  observed: %r" % (v.record["observed"],))
            if v.record.get("exception"):
                print("  exception: %r" % (v.record["exception"],))
            print("VIOLATION property=%s replay=%s" % (prop, path))
            return 1
        except Exception:
            traceback.print_exc()
            print("HARNESS-ERROR property=%s during replay" % prop)
            return 2
        print("replay passes: property=%s %s" % (prop, path))
        return 0

    tier = argv[1]
    if tier not in ("quick", "thorough"):
        print("unknown tier %r" % tier)
        return 2
    budget = float(
        os.environ.get("VERIF_BUDGET_S", QUICK_BUDGET_S if tier == "quick" else THOROUGH_BUDGET_S)
    )
    ctx = Ctx(prop, tier, seed, budget_s=budget)
    known_all = runner.load_known()
    try:
        # 1. committed regression cases (shrunk failures of repaired defects and of seeded changes)
        for path in sorted(glob.glob(os.path.join(ROOT, "regress", prop, "*.json"))):
            with open(path) as f:
                rec = json.load(f)
            rctx = Ctx(prop, tier, seed, known_entries=known_all)
            try:
                replay_record(mod, rctx, rec)
            except Violation as v:
                v.record["replay_of"] = os.path.relpath(path, ROOT)
                ctx.write_evidence(mod, 1, v.record)
                print("regression case fails again: %s (%s)" % (path, v.record["signature"]))
                print("VIOLATION property=%s replay=%s" % (prop, path))
                return 1
            ctx.count("regress-replayed")
        # 2. the generated search
        mod.run(ctx)
    except Violation as v:
        path = write_replay(v.record)
        ctx.write_evidence(mod, 1, v.record)
        print("clause %s failed" % v.record["signature"])
        print("  case: %s" % json.dumps(v.record["case"], default=repr)[:2000])
        print("  expected: %r" % (v.record["expected"],))
        print("  observed: %r" % (v.record["observed"],))
        if v.record.get("exception"):
            print("  exception: %r" % (v.record["exception"],))
        print("VIOLATION property=%s replay=%s" % (prop, path))
        return 1
    except HarnessError as e:
        print("HARNESS-ERROR property=%s %s" % (prop, e))
        return 2
    except BaseException:
        traceback.print_exc()
        print("HARNESS-ERROR property=%s unexpected exception in the harness" % prop)
        return 2

    # 3. known findings: replay each listed example so the line does not depend on the search
    for e in known_all:
        if e["property"] != prop or e["status"] != "known":
            continue
        hit = ctx.excluded_known.get(e["signature"], 0) > 0
        ex = e.get("example")
        if ex is not None:
            kctx = Ctx(prop, tier, seed, known_entries=known_all)
            try:
                replay_record(mod, kctx, ex)
            except Violation as v:
                # the stored example now fails with an UNLISTED signature
                path = write_replay(v.record)
                ctx.write_evidence(mod, 1, v.record)
                print("VIOLATION property=%s replay=%s" % (prop, path))
                return 1
            if kctx.excluded_known.get(e["signature"], 0) > 0:
                hit = True
                ctx.excluded_known[e["signature"]] += 0
        if hit:
            print("KNOWN-FINDING: property=%s %s [%s]" % (prop, e["what"], e["signature"]))
    ctx.write_evidence(mod, 0)
    print(
        "OK property=%s tier=%s seed=%d evaluations=%d distinct_nontrivial=%d wall=%.1fs%s"
        % (
            prop,
            tier,
            seed,
            ctx.evaluations,
            len(ctx.nt_hashes) + ctx.nt_by_construction,
            time.time() - ctx.t0,
            " (inconclusive parts: %s)" % ctx.inconclusive if ctx.inconclusive else "",
        )
    )
    return 0


if __name__ == "__main__":
    os.environ["VERIF_RUN_ID"] = "run-%d" % os.getpid()
    code = 2
    try:
        code = main(sys.argv[1:])
    finally:
        import shutil

        shutil.rmtree(os.path.join(ROOT, ".work", os.environ["VERIF_RUN_ID"]), ignore_errors=True)
    sys.exit(code)
