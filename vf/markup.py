"""G-markup: trees of text leaves and style nodes, their source text, plain text and per-character style map.
Also a small SGR parser. Tags are assembled from LT / GT so that this file contains no literal markup."""
import re

from hypothesis import strategies as st

LT, GT = chr(60), chr(62)
ESC = "\x1b"

FG = {"black": 30, "red": 31, "green": 32, "yellow": 33, "blue": 34, "magenta": 35, "cyan": 36, "light_gray": 37,
      "default": 39, "dark_gray": 90, "light_red": 91, "light_green": 92, "light_yellow": 93, "light_blue": 94,
      "light_magenta": 95, "light_cyan": 96, "white": 97}
ATTRS = {"bold": 1, "dark": 2, "italic": 3, "underline": 4, "blink": 5, "reverse": 7, "conceal": 8}
# clikit Style method -> SGR code (independent table: bold 1, dark 2, italic 3, underlined 4, blinking 5, inverse 7, hidden 8)
STYLE_METHODS = [("bold", 1), ("dark", 2), ("italic", 3), ("underlined", 4), ("blinking", 5), ("inverse", 7), ("hidden", 8)]
# the default style set as documented in DefaultStyleSet
REGISTERED = {
    "info": {32}, "comment": {36}, "question": {34}, "error": {31, 1}, "b": {1}, "u": {4}, "c1": {36}, "c2": {33},
}
TAG_RE = re.compile("(?is)" + LT + "(([a-z][a-z0-9,_=;-]*)|/([a-z][a-z0-9,_=;-]*)?)" + GT)
SGR_RE = re.compile("\x1b\\[([0-9;]*)m")
ANY_ESC_RE = re.compile("\x1b")


def codes_of_spec(spec):
    """SGR code set of an inline spec like fg=red;bg=blue;options=bold,underline."""
    codes = set()
    for part in spec.split(";"):
        k, v = part.split("=")
        if k == "fg":
            codes.add(FG[v])
        elif k == "bg":
            codes.add(FG[v] + 10)
        else:
            for o in v.split(","):
                codes.add(ATTRS[o])
    return codes


def render_source(node):
    """(source text, plain text, [code-set per plain character], [intended tag strings in order])."""
    src, plain, styles, tags = [], [], [], []

    def walk(n, current):
        if "text" in n:
            src.append(n["text"])
            plain.append(n["text"])
            styles.extend([current] * len(n["text"]))
            return
        if "literal_tag" in n:
            t = n["literal_tag"]
            src.append(t)
            plain.append(t)
            styles.extend([current] * len(t))
            return
        if "escaped_lt" in n:
            # an escaped opening bracket that is not part of a tag: the backslash is dropped
            src.append("\\" + LT)
            plain.append(LT)
            styles.append(current)
            return
        if "escaped_tag" in n:
            # a registered tag written with pastel's escape character: rendered as the literal tag text
            t = n["escaped_tag"]
            src.append("\\" + t)
            plain.append(t)
            styles.extend([current] * len(t))
            return
        name = n["tag"]
        codes = frozenset(REGISTERED[name]) if name in REGISTERED else frozenset(codes_of_spec(name))
        open_tag = LT + name + GT
        close_tag = LT + "/" + (name if n.get("close") == "named" else "") + GT
        src.append(open_tag)
        tags.append(open_tag)
        for c in n["children"]:
            walk(c, codes)
        src.append(close_tag)
        tags.append(close_tag)

    for n in node:
        walk(n, frozenset())
    return "".join(src), "".join(plain), styles, tags


def depth(nodes):
    d = 0
    for n in nodes:
        if "children" in n:
            d = max(d, 1 + depth(n["children"]))
    return d


def has_literal(nodes):
    for n in nodes:
        if "literal_tag" in n or "escaped_tag" in n or "escaped_lt" in n:
            return True
        if "text" in n and (LT in n["text"] or GT in n["text"]):
            return True
        if "children" in n and has_literal(n["children"]):
            return True
    return False


def source_is_unambiguous(nodes):
    """Independent tokenisation of the source: the tags found must be exactly the intended style tags plus
    unknown-word literal tags."""
    src, plain, styles, tags = render_source(nodes)
    found = [m.group(0) for m in TAG_RE.finditer(src) if not (m.start() > 0 and src[m.start() - 1] == "\\")]
    want = list(tags)
    i = 0
    for f in found:
        if i < len(want) and f == want[i]:
            i += 1
            continue
        name = f[1:-1].lstrip("/").lower()
        if f == LT + "/" + GT or "=" in name or name in REGISTERED:
            return False
    return i == len(want)


def parse_sgr(s):
    """Split an ANSI string into (plain text, [code-set per character]). Raises ValueError on any other escape."""
    out, styles = [], []
    cur = frozenset()
    pos = 0
    for m in SGR_RE.finditer(s):
        chunk = s[pos:m.start()]
        if ESC in chunk:
            raise ValueError("non-SGR escape")
        out.append(chunk)
        styles.extend([cur] * len(chunk))
        codes = [c for c in m.group(1).split(";") if c != ""]
        if codes == ["0"] or not codes:
            cur = frozenset()
        else:
            cur = frozenset(int(c) for c in codes)
        pos = m.end()
    chunk = s[pos:]
    if ESC in chunk:
        raise ValueError("non-SGR escape")
    out.append(chunk)
    styles.extend([cur] * len(chunk))
    return "".join(out), styles


def strip_sgr(s):
    return SGR_RE.sub("", s)


LEAF_CHARS = ["a", "b", "Z", " ", " ", "\n", "é", "中", LT, GT, "/", "=", ";", "1", "x"]
INLINE = ["fg=red", "bg=blue", "options=bold", "fg=green;options=bold,underline", "fg=light_cyan;bg=dark_gray",
          "options=reverse,conceal", "fg=default", "bg=white;options=italic,blink,dark"]
UNKNOWN = ["zz", "foo", "q9", "a,b", "x-y", "BOLD2"]


def leaf_st():
    return st.lists(st.sampled_from(LEAF_CHARS), min_size=0, max_size=8).map(lambda l: {"text": "".join(l)})


def literal_st():
    return st.tuples(st.sampled_from(UNKNOWN), st.booleans()).map(
        lambda t: {"literal_tag": LT + ("/" if t[1] else "") + t[0] + GT})


def escaped_st():
    return st.sampled_from([LT + "b" + GT, LT + "/b" + GT, LT + "info" + GT, LT + "/" + GT, LT + "fg=red" + GT,
                            LT + "/error" + GT]).map(lambda t: {"escaped_tag": t})


def nodes_st(max_depth=4):
    def style_node(children):
        return st.fixed_dictionaries({
            "tag": st.sampled_from(sorted(REGISTERED) + INLINE),
            "close": st.sampled_from(["named", "short"]),
            "children": st.lists(children, max_size=3),
        })

    base = st.one_of(leaf_st(), leaf_st(), leaf_st(), literal_st(), escaped_st(), st.just({"escaped_lt": True}))
    tree = st.recursive(base, lambda ch: st.one_of(leaf_st(), style_node(ch)), max_leaves=10)
    return st.lists(tree, min_size=1, max_size=4).filter(source_is_unambiguous)
