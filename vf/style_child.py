"""Child process for C17.style: construct table styles in a given order (optionally customising one of them),
then render a fixed table with every requested style. Prints one JSON object {style name: rendered text}.
usage: python style_child.py '<json: {"order": [names, repeats allowed], "customise": index|null}>'"""
import json
import os
import sys

src = os.environ.get("CLIKIT_SRC", "/repo/src")
sys.path.insert(0, src)

from clikit.io import BufferedIO  # noqa: E402
from clikit.ui.components import Table  # noqa: E402
from clikit.ui.rectangle import Rectangle  # noqa: E402
from clikit.ui.style import TableStyle  # noqa: E402


def main():
    spec = json.loads(sys.argv[1])
    from clikit.ui.style import Alignment

    styles = []
    for i, name in enumerate(spec["order"]):
        st = getattr(TableStyle, name)()
        if spec.get("customise") == i:
            st.padding_char = "."
            st.border_style.line_vc_char = "!"
            st.border_style.line_vl_char = "["
            st.border_style.line_vr_char = "]"
            st.border_style.crossing_c_char = "x"
            st.border_style.line_hc_char = "~"
            st.set_column_alignment(1, Alignment.RIGHT)
            st.cell_format = "<{}>".replace("<", chr(171)).replace(">", chr(187))
        styles.append(st)
    out = []
    for st in styles:
        io = BufferedIO()
        io.set_terminal_dimensions(Rectangle(60, 20))
        t = Table(st)
        t.set_header_row(["ISBN", "Title", "Author"])
        t.add_rows([["99921-58-10-7", "Divine Comedy", "Dante Alighieri"], ["9971-5-0210-0", "A Tale of Two Cities", "Charles Dickens"]])
        t.render(io)
        out.append(io.fetch_output())
    print(json.dumps(out))


main()
