"""G-tree / M-resolve: command trees, applications built from them, the reference resolver and lines for a target.

tree  {"commands": [cmd, ...]}
cmd   {"name", "aliases": [...], "kind": "plain|default|anonymous|hidden|disabled|default-hidden",
       "opts": [opt elem], "args": [arg elem], "desc": str|None, "subs": [cmd, ...]}
opt / arg elements are those of vf.gen_args.
"""
from hypothesis import strategies as st

from vf import gen_args

NAMES = ["server", "add", "remote", "push", "list", "cfg", "deploy"]
MORE_NAMES = ["fetch", "merge", "status", "branch", "clone", "init", "tag9", "grep", "blame", "stash", "prune", "bisect"]
ALIASES = ["srv", "ad2", "rmt", "psh", "ls1", "cf9", "dpl", "zz1", "yy2", "ww3"]
LONGS = ["foo", "bar", "baz-x", "opt1", "qux", "num", "k2", "mode", "level", "dry-run"]
SHORTS = list("fbxokFBXze")
TAG_ARGNAMES = ["info", "b"]
ARGNAMES = ["a1", "a2", "src", "dst", "file-name", "rest", "host", "port"]

DEFAULT_APP_OPTIONS = [
    {"k": "opt", "long": "help", "short": "h", "mode": "none", "type": "s", "nullable": False, "default": None},
    {"k": "opt", "long": "quiet", "short": "q", "mode": "none", "type": "s", "nullable": False, "default": None},
    {"k": "opt", "long": "verbose", "short": "v", "mode": "opt", "type": "s", "nullable": False, "default": None},
    {"k": "opt", "long": "version", "short": "V", "mode": "none", "type": "s", "nullable": False, "default": None},
    {"k": "opt", "long": "ansi", "short": None, "mode": "none", "type": "s", "nullable": False, "default": None},
    {"k": "opt", "long": "no-ansi", "short": None, "mode": "none", "type": "s", "nullable": False, "default": None},
    {"k": "opt", "long": "no-interaction", "short": "n", "mode": "none", "type": "s", "nullable": False, "default": None},
]
HELP_CMD = {"name": "help", "aliases": [], "kind": "default", "opts": [], "desc": "Display the manual of a command",
            "args": [{"k": "arg", "name": "command", "kind": "multi", "type": "s", "nullable": False, "default": None,
                      "desc": "The command name"}], "subs": [], "builtin": True}


def is_default(c):
    return c["kind"] in ("default", "anonymous", "default-hidden")


def is_enabled(c):
    return c["kind"] != "disabled"


def is_named(c):
    return c["kind"] != "anonymous"


def is_hidden(c):
    return c["kind"] in ("hidden", "default-hidden")


DESCS = [None, "short text", "forty words " + " ".join("word%d" % i for i in range(38)), "first line\nsecond line",
         'template "{name}-{0}.txt", {} braces, 100% and %s signs, a back\\slash']


@st.composite
def tree_st(draw, max_depth=3, max_fanout=3, typed=False, descriptions=False, min_top=1, unique_names=False,
            collide=False, lenient=False, tag_names=False):
    used_as_option = set()
    longs = list(draw(st.permutations(LONGS)))
    shorts = list(draw(st.permutations(SHORTS)))
    # tag_names: also argument names that are legal and happen to equal a registered style tag
    argnames = list(draw(st.permutations(ARGNAMES + (TAG_ARGNAMES if tag_names else []))))

    def elem_desc():
        return draw(st.sampled_from(DESCS)) if descriptions else "d"

    def make(depth, state, names, aliases_pool):
        # state: (has_multi, has_optional) of the arguments along the path so far;
        # names / aliases_pool: what is still unused in this sibling group
        has_multi, has_optional = state
        name = names.pop()
        aliases = [aliases_pool.pop() for _ in range(draw(st.integers(0, 2))) if aliases_pool]
        kind = draw(st.sampled_from(["plain"] * 5 + ["default", "default", "anonymous", "hidden", "disabled", "default-hidden"]))
        opts = []
        for _ in range(draw(st.integers(0, 2))):
            if not longs:
                break
            ln = longs.pop()
            sh = shorts.pop() if shorts and draw(st.booleans()) else None
            mode = draw(st.sampled_from(["none", "none", "req", "opt", "multi"] if typed else ["none", "none", "req"]))
            typ = draw(st.sampled_from("sbif")) if typed else "s"
            default = None
            if typed and mode in ("req", "opt") and draw(st.booleans()):
                default = gen_args.DEFAULTS[typ]
            elif typed and mode == "multi" and draw(st.booleans()):
                default = [gen_args.DEFAULTS[typ]]
            opts.append({"k": "opt", "long": ln, "short": sh, "mode": mode, "type": typ, "nullable": False,
                         "default": default, "desc": elem_desc()})
            if sh and draw(st.integers(0, 3)) == 0:
                opts[-1]["prefer"] = "long"  # shown as '--long (-s)'; both spellings stay valid
        args = []
        for _ in range(draw(st.integers(0, 2))):
            if has_multi or not argnames:
                break
            kinds = ["opt", "multi"] if has_optional else ["req", "req", "opt", "multi", "multireq"]
            kind_a = draw(st.sampled_from(kinds))
            typ = draw(st.sampled_from("ssif")) if typed else "s"
            default = None
            if typed and kind_a == "opt" and draw(st.booleans()):
                default = gen_args.DEFAULTS[typ]
            elif typed and kind_a == "multi" and draw(st.booleans()):
                default = [gen_args.DEFAULTS[typ]]
            args.append({"k": "arg", "name": argnames.pop(), "kind": kind_a, "type": typ, "nullable": False,
                         "default": default, "desc": elem_desc()})
            if kind_a in ("multi", "multireq"):
                has_multi = True
            if kind_a in ("opt", "multi"):
                has_optional = True
        subs = []
        if depth < max_depth:
            n = draw(st.integers(0, max_fanout if depth == 1 else 2))
            if unique_names:
                sub_names, sub_aliases = names, aliases_pool
            else:
                sub_names = list(draw(st.permutations(NAMES)))
                sub_aliases = list(draw(st.permutations(ALIASES)))
            for _ in range(n):
                if not sub_names:
                    break
                subs.append(make(depth + 1, (has_multi, has_optional), sub_names, sub_aliases))
        if collide and subs and draw(st.booleans()):
            # an option that is named like one of the command's own sub-commands
            cand = [x["name"] for x in subs if x["name"] not in used_as_option and len(x["name"]) > 1]
            if cand:
                nm = draw(st.sampled_from(cand))
                used_as_option.add(nm)
                opts.append({"k": "opt", "long": nm, "short": None, "mode": "none", "type": "s", "nullable": False,
                             "default": None, "desc": elem_desc()})
        cmd = {"name": name, "aliases": aliases, "kind": kind, "opts": opts, "args": args,
               "desc": (draw(st.sampled_from(DESCS)) if descriptions else "d"), "subs": subs}
        if lenient and draw(st.integers(0, 3)) == 0:
            cmd["lenient"] = True  # explicitly configured with enable_lenient_args_parsing()
        if descriptions and draw(st.integers(0, 3)) == 0:
            cmd["help"] = "Help of {command_name} in {script_name}.\nSecond paragraph with some more words to wrap around."
        return cmd

    n_top = draw(st.integers(min_top, max_fanout))
    names = list(draw(st.permutations(NAMES + (MORE_NAMES if unique_names else []))))
    aliases_pool = list(draw(st.permutations(ALIASES)))
    top = []
    for _ in range(n_top):
        if names:
            top.append(make(1, (False, False), names, aliases_pool))
    return {"commands": top}


# ------------------------------------------------------------------------------------- building
class BareConfigMixin(object):
    pass


def make_config(kind, name="app", version="1.2.3"):
    from clikit.api.config.application_config import ApplicationConfig
    from clikit.config.default_application_config import DefaultApplicationConfig
    from clikit.formatter import DefaultStyleSet
    from clikit.resolver.default_resolver import DefaultResolver

    if kind == "default":
        return DefaultApplicationConfig(name, version)

    class BareConfig(ApplicationConfig):
        @property
        def default_style_set(self):
            return DefaultStyleSet()

        @property
        def default_command_resolver(self):
            return DefaultResolver()

    cfg = BareConfig(name, version)

    def io_factory(application, args, input_stream=None, output_stream=None, error_stream=None):
        from clikit.api.io import IO, Input, Output
        from clikit.formatter import PlainFormatter

        return IO(Input(input_stream), Output(output_stream, PlainFormatter()), Output(error_stream, PlainFormatter()))

    cfg.set_io_factory(io_factory)
    return cfg


def build_command_config(cmd, handler_for, path, skip=None, fluent=False, into=None):
    """fluent: the configuration is written with the create_command / create_sub_command / add_aliases style of the
    API instead of CommandConfig(...) + add_sub_command_config; 'into' is the configuration object to fill."""
    from clikit.api.args.format import Argument, Option
    from clikit.api.config.command_config import CommandConfig

    cc = into if into is not None else CommandConfig(cmd["name"])
    if fluent and cmd["aliases"]:
        cc.add_aliases(list(cmd["aliases"]))
    else:
        for a in cmd["aliases"]:
            cc.add_alias(a)
    if cmd.get("desc") is not None:
        cc.set_description(cmd["desc"])
    if cmd.get("help"):
        cc.set_help(cmd["help"])
    k = cmd["kind"]
    if k in ("default", "default-hidden"):
        cc.default()
    if k == "anonymous":
        cc.anonymous()
    if k in ("hidden", "default-hidden"):
        cc.hide()
    if k == "disabled":
        cc.disable()
    elif fluent:
        cc.enable()
    if cmd.get("lenient"):
        cc.enable_lenient_args_parsing()
    for o in cmd["opts"]:
        el = gen_args.build_element(o)
        cc.add_option(el.long_name, el.short_name, el.flags, o.get("desc"), o.get("default"))
    for a in cmd["args"]:
        el = gen_args.build_element(a)
        cc.add_argument(el.name, el.flags, a.get("desc"), a.get("default"))
    mypath = path + [cmd["name"]]
    if handler_for is not None:
        cc.set_handler(handler_for(mypath, cmd))
    for s in cmd["subs"]:
        if skip is not None and mypath + [s["name"]] == skip:
            continue
        if fluent:
            build_command_config(s, handler_for, mypath, skip, True, into=cc.create_sub_command(s["name"]))
        else:
            cc.add_sub_command_config(build_command_config(s, handler_for, mypath, skip))
    return cc


def build_app(tree, config_kind="bare", handler_for=None, configure=None, late=None, fluent=False):
    """late: path of one (plain, named) command that is left out of the configuration and added to the running
    application afterwards (add_command / add_sub_command), after some command lines were already resolved."""
    from clikit.console_application import ConsoleApplication

    cfg = make_config(config_kind)
    cfg.set_terminate_after_run(False)
    cfg.set_catch_exceptions(False)  # a config error is a generator bug: let it surface as a harness error
    for c in tree["commands"]:
        if late is not None and [c["name"]] == late:
            continue
        if fluent:
            build_command_config(c, handler_for, [], late, True, into=cfg.create_command(c["name"]))
        else:
            cfg.add_command_config(build_command_config(c, handler_for, [], late))
    if configure is not None:
        configure(cfg)
    app = ConsoleApplication(cfg)
    if late is not None:
        from clikit.args import ArgvArgs

        for warm in ([], late[:-1], late[:-1] + ["zzz-no-such"], list(late)):
            try:
                app.resolve_command(ArgvArgs(["prog"] + warm))
            except Exception:
                pass
        children = tree["commands"]
        node = None
        for n in late:
            node = [c for c in children if c["name"] == n][0]
            children = node["subs"]
        cc = build_command_config(node, handler_for, late[:-1])
        if len(late) == 1:
            app.add_command(cc)
        else:
            find_real(app, late[:-1]).add_sub_command(cc)
    cfg.set_catch_exceptions(True)
    return app


def late_candidates(tree):
    """Paths of plain named commands whose ancestors are all enabled and named (they can be added late without
    changing which command is the first default)."""
    out = []

    def walk(children, path):
        for c in children:
            if not (is_enabled(c) and is_named(c)):
                continue
            if c["kind"] == "plain":
                out.append(path + [c["name"]])
            walk(c["subs"], path + [c["name"]])

    walk(tree["commands"], [])
    return out


def top_commands(tree, config_kind):
    return ([HELP_CMD] if config_kind == "default" else []) + list(tree["commands"])


def find_real(app, path):
    cmd = app.get_command(path[0])
    for n in path[1:]:
        cmd = cmd.get_sub_command(n)
    return cmd


# --------------------------------------------------------------------------------------- model
def lookup(children, token):
    for c in children:
        if is_enabled(c) and is_named(c) and (c["name"] == token or token in c["aliases"]):
            return c
    return None


def leading_tokens(tokens):
    out = []
    for t in tokens:
        if t == "" or t == "--" or t.startswith("-"):
            break
        out.append(t)
    return out


def resolve_model(tree, config_kind, tokens, parsable):
    """Returns ('command', path) | ('undefined', token) | ('no-default',).
    parsable(path) -> bool decides whether the command at that path parses the line (strict)."""
    leading = leading_tokens(tokens)
    children = top_commands(tree, config_kind)
    cur = None
    path = []
    for t in leading:
        nxt = lookup(children, t)
        if nxt is None:
            break
        cur = nxt
        path.append(cur["name"])
        children = cur["subs"]
    if cur is None:
        if leading:
            return ("undefined", leading[0])
        defaults = [[c["name"]] for c in top_commands(tree, config_kind) if is_enabled(c) and is_default(c)]
        if not defaults:
            return ("no-default",)
    else:
        defaults = [path + [s["name"]] for s in cur["subs"] if is_enabled(s) and is_default(s)]
        if not defaults:
            return ("command", path)
    for d in defaults:
        if parsable(d):
            return ("command", d)
    return ("command", defaults[0])


def node_at(tree, config_kind, path):
    children = top_commands(tree, config_kind)
    node = None
    for n in path:
        node = [c for c in children if c["name"] == n][0]
        children = node["subs"]
    return node


def format_for(tree, config_kind, path):
    """The stacked format description (gen_args style) of the command at path."""
    levels = [list(DEFAULT_APP_OPTIONS) if config_kind == "default" else []]
    children = top_commands(tree, config_kind)
    for n in path:
        node = [c for c in children if c["name"] == n][0]
        lvl = []
        if is_named(node):
            lvl.append({"k": "name", "name": node["name"], "aliases": list(node["aliases"])})
        lvl += list(node["opts"]) + list(node["args"])
        levels.append(lvl)
        children = node["subs"]
    return {"levels": levels}


def all_paths(tree, config_kind, include_disabled=False):
    out = []

    def walk(children, prefix):
        for c in children:
            if not is_enabled(c) and not include_disabled:
                continue
            p = prefix + [c["name"]]
            out.append(p)
            walk(c["subs"], p)

    walk(top_commands(tree, config_kind), [])
    return out


# ----------------------------------------------------------------------------------- structure
def structure_mismatches(app, tree, config_kind):
    """Compare the structural queries of the built application (collections of all / named / default commands
    on every level, their predicates, lookups by name and alias, parent links) with the tree description.
    Returns a list of (what, expected, observed)."""
    out = []

    def names(coll):
        return sorted(c.name for c in coll)

    def level(owner, children, parent, where):
        enabled = [c for c in children if is_enabled(c)]
        if parent is None:
            got = {"all": names(owner.commands), "named": names(owner.named_commands),
                   "default": names(owner.default_commands),
                   "has": [owner.has_commands(), owner.has_named_commands(), owner.has_default_commands()]}
            has_one = lambda n: owner.has_command(n)  # noqa: E731
            get_named = lambda n: owner.named_commands.get(n)  # noqa: E731
            get_default = lambda n: owner.default_commands.get(n)  # noqa: E731
        else:
            got = {"all": names(owner.sub_commands), "named": names(owner.named_sub_commands),
                   "default": names(owner.default_sub_commands),
                   "has": [owner.has_sub_commands(), owner.has_named_sub_commands(), owner.has_default_sub_commands()]}
            has_one = lambda n: n in owner.sub_commands  # noqa: E731
            get_named = owner.get_named_sub_command
            get_default = owner.get_default_sub_command
        want = {"all": sorted(c["name"] for c in enabled),
                "named": sorted(c["name"] for c in enabled if is_named(c)),
                "default": sorted(c["name"] for c in enabled if is_default(c))}
        want["has"] = [bool(want["all"]), bool(want["named"]), bool(want["default"])]
        if got != want:
            out.append((where + ": collections", want, got))
        if has_one("zz-no-such-command"):
            out.append((where + ": has('zz-no-such-command')", False, True))
        for c in children:
            if not is_enabled(c):
                if c["name"] not in [x["name"] for x in enabled] and has_one(c["name"]):
                    out.append((where + ": disabled %s present" % c["name"], False, True))
                continue
            if not has_one(c["name"]):
                out.append((where + ": has(%s)" % c["name"], True, False))
                continue
            real = (owner.get_command(c["name"]) if parent is None else owner.get_sub_command(c["name"]))
            if is_named(c):
                for key in [c["name"]] + list(c["aliases"]):
                    if get_named(key) is not real:
                        out.append((where + ": named lookup %r" % key, c["name"], "another object"))
            if is_default(c) and get_default(c["name"]) is not real:
                out.append((where + ": default lookup %r" % c["name"], c["name"], "another object"))
            facts = {"name": real.name, "aliases": sorted(real.aliases), "parent": real.parent_command is parent,
                     "full_name": real.full_name}
            want_facts = {"name": c["name"], "aliases": sorted(c["aliases"]), "parent": True,
                          "full_name": (where + " " + c["name"]).strip()}
            if facts != want_facts:
                out.append((where + ": command %s" % c["name"], want_facts, facts))
            level(real, c["subs"], real, (where + " " + c["name"]).strip())

    level(app, top_commands(tree, config_kind), None, "")
    return out
