"""Virtual clock: a stand-in for the `time` module object seen by one clikit component."""


class Clock(object):
    def __init__(self, start=1000.0):
        self.now = start

    def advance(self, dt):
        self.now += dt


class FakeTime(object):
    """Replaces the module attribute `time` of a component module (e.g. progress_bar.time = FakeTime(clock))."""

    def __init__(self, clock, on_sleep=None):
        self._clock = clock
        self._on_sleep = on_sleep

    def time(self):
        return self._clock.now

    def sleep(self, dt):
        if self._on_sleep is not None:
            self._on_sleep(dt)
        else:
            self._clock.advance(dt)


class RecordingStream(object):
    """An OutputStream that records every write with the virtual time and a caller-set tag."""

    def __init__(self, clock, ansi=False):
        self.clock = clock
        self.log = []  # (time, tag, text)
        self.tag = None
        self._ansi = ansi
        self._closed = False
        self.on_write = None

    def write(self, string):
        if self.on_write is not None:
            self.on_write(string)
        self.log.append((self.clock.now, self.tag, string))

    def fetch(self):
        return "".join(t for _, _, t in self.log)

    def flush(self):
        pass

    def supports_ansi(self):
        return self._ansi

    def supports_utf8(self):
        return True

    def close(self):
        self._closed = True

    def is_closed(self):
        return self._closed
