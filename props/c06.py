"""C06 - an args format can never be built into an inconsistent state."""
import itertools

from hypothesis import strategies as st

LEVEL = "exploration"
RULE = (
    "histories over ArgsFormatBuilder stacked on 0-2 base levels (each base level built by the same machine): ops "
    "{add_option, add_command_option(0-2 aliases), add_argument(req/opt/multi/multireq), add_command_name, "
    "set_options, set_command_options, set_arguments, set_command_names} over a colliding pool (longs aa ab ac, "
    "shorts a b, aliases from both, argument names x y z); after EVERY op the complete query table (has/get by "
    "long, short, alias, name, index; existence and required/optional/multi predicates; listings with and "
    "without base) of the builder, of builder.format and of a dict-based reference model are compared, and the "
    "element-list constructor is compared with the builder on the same additions. quick: Hypothesis sequences "
    "<= 7 ops per level; thorough: additionally all sequences of <= 4 ops over a 22-op alphabet for 5 base "
    "shapes. Non-trivial: a rejected op followed by an accepted one, or a base level that the top level collides "
    "with. Distinct by hash (random) / by construction (enumeration)."
)
ASSUMPTIONS = [
    "set_* is modelled as reset of that element kind followed by single additions, aborted at the first rejection",
    "listings of options are compared as sets between model and code (order between levels is not implied by the "
    "statement) and exactly between builder and built format; arguments and command names are ordered base first",
    "command-option listings are deduplicated by identity before comparison; negative indices are not queried",
]

LONGS = ["aa", "ab", "ac"]
SHORTS = ["a", "b"]
ALIASES = ["a", "b", "c", "aa", "ab", "ad"]
ARGS = ["x", "y", "z"]
KEYS = LONGS + ["ad"] + SHORTS + ["c"]


# ------------------------------------------------------------------------------------ model
class MLevel(object):
    def __init__(self):
        self.names = []
        self.copts = []
        self.opts = []
        self.args = []

    def copy(self):
        c = MLevel()
        c.names, c.copts, c.opts, c.args = list(self.names), list(self.copts), list(self.opts), list(self.args)
        return c


def okeys(o):
    return [o["long"]] + ([o["short"]] if o.get("short") else [])


def ckeys(o):
    return okeys(o) + list(o.get("aliases", []))


class Model(object):
    def __init__(self, base_levels):
        self.levels = [l.copy() for l in base_levels] + [MLevel()]

    @property
    def top(self):
        return self.levels[-1]

    def scope(self, include_base):
        return self.levels if include_base else self.levels[-1:]

    def taken(self):
        t = set()
        for l in self.levels:
            for o in l.opts:
                t.update(okeys(o))
            for o in l.copts:
                t.update(ckeys(o))
        return t

    def can_add_opt(self, o):
        return not (set(okeys(o)) & self.taken())

    def can_add_copt(self, o):
        return not (set(ckeys(o)) & self.taken())

    def can_add_arg(self, a):
        allargs = [x for l in self.levels for x in l.args]
        if any(x["name"] == a["name"] for x in allargs):
            return False
        if any(x["kind"] in ("multi", "multireq") for x in allargs):
            return False
        if a["kind"] in ("req", "multireq") and any(x["kind"] in ("opt", "multi") for x in allargs):
            return False
        return True

    def apply(self, op):
        """Returns 'ok' or the name of the rejection class."""
        k = op["op"]
        if k == "opt":
            if not self.can_add_opt(op["el"]):
                return "CannotAddOptionException"
            self.top.opts.append(op["el"])
        elif k == "copt":
            if not self.can_add_copt(op["el"]):
                return "CannotAddOptionException"
            self.top.copts.append(op["el"])
        elif k == "arg":
            if not self.can_add_arg(op["el"]):
                return "CannotAddArgumentException"
            self.top.args.append(op["el"])
        elif k == "name":
            self.top.names.append(op["el"])
        elif k == "set_opts":
            self.top.opts = []
            for el in op["els"]:
                r = self.apply({"op": "opt", "el": el})
                if r != "ok":
                    return r
        elif k == "set_copts":
            self.top.copts = []
            for el in op["els"]:
                r = self.apply({"op": "copt", "el": el})
                if r != "ok":
                    return r
        elif k == "set_args":
            self.top.args = []
            for el in op["els"]:
                r = self.apply({"op": "arg", "el": el})
                if r != "ok":
                    return r
        elif k == "set_names":
            self.top.names = list(op["els"])
        return "ok"

    # the query table ------------------------------------------------------------------------
    def table(self):
        t = {}
        for ib in (True, False):
            sc = self.scope(ib)
            tag = "+base" if ib else "own"
            opts = [o for l in sc for o in l.opts]
            copts = [o for l in sc for o in l.copts]
            args = [a for l in sc for a in l.args]
            names = [n for l in sc for n in l.names]
            for key in KEYS:
                hit = [o for o in opts if key in okeys(o)]
                t["has_option(%s)%s" % (key, tag)] = bool(hit)
                t["get_option(%s)%s" % (key, tag)] = hit[0]["uid"] if hit else "NoSuchOptionException"
                hit = [o for o in copts if key in ckeys(o)]
                t["has_command_option(%s)%s" % (key, tag)] = bool(hit)
                t["get_command_option(%s)%s" % (key, tag)] = hit[0]["uid"] if hit else "NoSuchOptionException"
            for name in ARGS:
                hit = [a for a in args if a["name"] == name]
                t["has_argument(%s)%s" % (name, tag)] = bool(hit)
                t["get_argument(%s)%s" % (name, tag)] = hit[0]["uid"] if hit else "NoSuchArgumentException"
            for i in range(5):
                t["has_argument(%d)%s" % (i, tag)] = i < len(args)
                t["get_argument(%d)%s" % (i, tag)] = args[i]["uid"] if i < len(args) else "NoSuchArgumentException"
            t["has_arguments%s" % tag] = bool(args)
            t["has_options%s" % tag] = bool(opts)
            t["has_command_options%s" % tag] = bool(copts)
            t["has_command_names%s" % tag] = bool(names)
            t["has_multi_valued_argument%s" % tag] = any(a["kind"] in ("multi", "multireq") for a in args)
            t["has_optional_argument%s" % tag] = any(a["kind"] in ("opt", "multi") for a in args)
            t["has_required_argument%s" % tag] = any(a["kind"] in ("req", "multireq") for a in args)
            t["get_arguments%s" % tag] = [a["uid"] for a in args]
            t["get_command_names%s" % tag] = [n["uid"] for n in names]
            t["get_options%s:set" % tag] = sorted(o["uid"] for o in opts)
            t["get_command_options%s:set" % tag] = sorted(o["uid"] for o in copts)
        return t

    def invariant_problems(self):
        seen = {}
        probs = []
        for l in self.levels:
            for o in l.opts:
                for k in okeys(o):
                    if seen.setdefault(k, o["uid"]) != o["uid"]:
                        probs.append("key %s identifies two options" % k)
            for o in l.copts:
                for k in ckeys(o):
                    if seen.setdefault(k, o["uid"]) != o["uid"]:
                        probs.append("key %s identifies two options" % k)
        return probs


# ---------------------------------------------------------------------------- real objects
class Objects(object):
    def __init__(self):
        self.uid_of = {}
        self.keep = []

    def build(self, kind, el):
        from clikit.api.args.format import Argument, CommandName, CommandOption, Option

        if kind == "opt":
            o = Option(el["long"], el.get("short"))
        elif kind == "copt":
            o = CommandOption(el["long"], el.get("short"), list(el.get("aliases", [])))
        elif kind == "arg":
            flags = {"req": Argument.REQUIRED, "opt": Argument.OPTIONAL, "multi": Argument.OPTIONAL | Argument.MULTI_VALUED,
                     "multireq": Argument.REQUIRED | Argument.MULTI_VALUED}[el["kind"]]
            o = Argument(el["name"], flags)
        else:
            o = CommandName(el["name"])
        self.uid_of[id(o)] = el["uid"]
        self.keep.append(o)
        return o

    def uid(self, o):
        return self.uid_of.get(id(o), "foreign:%r" % (o,))


def real_table(obj, objs):
    t = {}

    def call(fn, *a):
        try:
            return fn(*a)
        except Exception as e:
            return e

    def ident(r):
        if isinstance(r, Exception):
            return type(r).__name__
        return objs.uid(r)

    for ib in (True, False):
        tag = "+base" if ib else "own"
        for key in KEYS:
            t["has_option(%s)%s" % (key, tag)] = bool(obj.has_option(key, ib))
            t["get_option(%s)%s" % (key, tag)] = ident(call(obj.get_option, key, ib))
            t["has_command_option(%s)%s" % (key, tag)] = bool(obj.has_command_option(key, ib))
            t["get_command_option(%s)%s" % (key, tag)] = ident(call(obj.get_command_option, key, ib))
        for name in ARGS + list(range(5)):
            t["has_argument(%s)%s" % (name, tag)] = bool(obj.has_argument(name, ib))
            t["get_argument(%s)%s" % (name, tag)] = ident(call(obj.get_argument, name, ib))
        for q in ("has_arguments", "has_options", "has_command_options", "has_command_names",
                  "has_multi_valued_argument", "has_optional_argument", "has_required_argument"):
            t[q + tag] = bool(getattr(obj, q)(ib))
        args = obj.get_arguments(ib)
        t["get_arguments%s" % tag] = [objs.uid(a) for a in args.values()]
        if [a.name for a in args.values()] != list(args.keys()):
            t["get_arguments%s" % tag] = ["keys-do-not-match-names"] + list(args.keys())
        t["get_command_names%s" % tag] = [objs.uid(n) for n in obj.get_command_names(ib)]
        opts = obj.get_options(ib)
        t["get_options%s:set" % tag] = sorted(objs.uid(o) for o in opts.values())
        t["get_options%s:order" % tag] = [objs.uid(o) for o in opts.values()]
        dedup = []
        for o in obj.get_command_options(ib):
            if not any(o is d for d in dedup):
                dedup.append(o)
        t["get_command_options%s:set" % tag] = sorted(objs.uid(o) for o in dedup)
        t["get_command_options%s:order" % tag] = [objs.uid(o) for o in dedup]
    return t


def first_diff(a, b, keys=None):
    for k in sorted(keys if keys is not None else a):
        if k in a and k in b and a[k] != b[k]:
            return k, a[k], b[k]
    return None


def qname(key):
    """Signature discriminator: the query without its argument values."""
    name = key.split("(")[0].replace("+base", "").replace("own", "").replace(":order", "").replace(":set", "")
    if "(" in key:
        arg = key.split("(")[1].split(")")[0]
        name += "(int)" if arg.isdigit() else "(key)"
    for tag in ("+base", "own"):
        if tag in key:
            name += tag
    if key.endswith(":order"):
        name += ":order"
    return name


def do_op(builder, objs, op):
    """Apply op to the real builder. Returns 'ok' or the exception class name."""
    k = op["op"]
    try:
        if k == "opt":
            builder.add_option(objs.build("opt", op["el"]))
        elif k == "copt":
            builder.add_command_option(objs.build("copt", op["el"]))
        elif k == "arg":
            builder.add_argument(objs.build("arg", op["el"]))
        elif k == "name":
            builder.add_command_name(objs.build("name", op["el"]))
        elif k == "set_opts":
            builder.set_options(*[objs.build("opt", e) for e in op["els"]])
        elif k == "set_copts":
            builder.set_command_options(*[objs.build("copt", e) for e in op["els"]])
        elif k == "set_args":
            builder.set_arguments(*[objs.build("arg", e) for e in op["els"]])
        elif k == "set_names":
            builder.set_command_names(*[objs.build("name", e) for e in op["els"]])
    except Exception as e:
        return e
    return "ok"


def number(case):
    """Give every element description a unique id (stable, derived from its position)."""
    n = 0
    out = []
    for li, ops in enumerate(case["levels"]):
        lv = []
        for op in ops:
            op = dict(op)
            if "el" in op:
                n += 1
                op["el"] = dict(op["el"], uid="e%d" % n)
            else:
                els = []
                for e in op["els"]:
                    n += 1
                    els.append(dict(e, uid="e%d" % n))
                op["els"] = els
            lv.append(op)
        out.append(lv)
    return out


def check_history(ctx, case, part="history", by_construction=False):
    from clikit.api.args.exceptions import CannotAddArgumentException, CannotAddOptionException
    from clikit.api.args.format import ArgsFormat, ArgsFormatBuilder

    levels = number(case)
    objs = Objects()
    base_fmt = None
    base_model_levels = []
    nt = False
    classes = []

    def fail(clause, expected, observed, sig=None, exc=None):
        ctx.fail(part, clause, case, expected, observed, sig=sig, exc=exc)

    for li, ops in enumerate(levels):
        builder = ArgsFormatBuilder(base_fmt)
        model = Model(base_model_levels)
        rejected_before = False
        adds = []
        snaps = []  # (finished format, model table at the time it was taken)
        for oi, op in enumerate(ops):
            where = "level %d op %d %s" % (li, oi, op["op"])
            exp = model.apply(op)
            got = do_op(builder, objs, op)
            gname = "ok" if got == "ok" else type(got).__name__
            if got != "ok" and not isinstance(got, (CannotAddOptionException, CannotAddArgumentException)):
                fail("C06.accept-iff", exp, where, exc=got)
                return
            if gname != exp:
                fail("C06.accept-iff", exp, {"at": where, "got": gname}, sig=op["op"] + ("-accepted" if gname == "ok" else "-rejected"))
                return
            if exp == "ok":
                if rejected_before:
                    nt = True
                if "el" in op:
                    adds.append(op)
            else:
                rejected_before = True
                classes.append("c06:rejected-" + op["op"])
                if li > 0 and op["op"] in ("opt", "copt", "arg"):
                    nt = True
            probs = model.invariant_problems()
            if probs:
                raise AssertionError("model invariant broken: %r" % probs)
            mt = model.table()
            bt = real_table(builder, objs)
            d = first_diff(mt, bt)
            if d:
                fail("C06.queries", {d[0]: d[1]}, {"at": where, "builder": d[2]}, sig="builder:" + qname(d[0]))
            try:
                fmt = builder.format
            except Exception as e:
                fail("C06.queries", "builder.format succeeds", where, exc=e)
                return
            ft = real_table(fmt, objs)
            d = first_diff(mt, ft)
            if d:
                fail("C06.queries", {d[0]: d[1]}, {"at": where, "format": d[2]}, sig="format:" + qname(d[0]))
            d = first_diff(bt, ft)
            if d:
                fail("C06.queries", {d[0]: d[1]}, {"at": where, "format": d[2]}, sig="builder-vs-format:" + qname(d[0]))
            # a finished format is a snapshot: what the builder does afterwards does not change its answers
            for sf, stable in (snaps[-2:] + snaps[:1]):
                d = first_diff(stable, real_table(sf, objs))
                if d:
                    fail("C06.queries", {d[0]: d[1]}, {"at": where, "format taken earlier now answers": d[2]},
                         sig="snapshot:" + qname(d[0]))
                    return
            snaps.append((fmt, mt))
        # element-list constructor on the same base: same accept/reject, same answers
        ctor_model = Model(base_model_levels)
        verdict = "ok"
        for op in [o for o in ops if "el" in o]:
            verdict = ctor_model.apply(op)
            if verdict != "ok":
                break
        cobjs = Objects()
        cobjs.uid_of.update(objs.uid_of)
        els = [cobjs.build(o["op"], o["el"]) for o in ops if "el" in o]
        try:
            cf = ArgsFormat(els, base_fmt)
            cgot = "ok"
        except (CannotAddOptionException, CannotAddArgumentException) as e:
            cgot = type(e).__name__
        except Exception as e:
            fail("C06.ctor", verdict, "level %d" % li, exc=e)
            return
        if cgot != verdict:
            fail("C06.ctor", verdict, {"level": li, "got": cgot}, sig="accepted" if cgot == "ok" else "rejected")
        elif cgot == "ok":
            d = first_diff(ctor_model.table(), real_table(cf, cobjs))
            if d:
                fail("C06.ctor", {d[0]: d[1]}, {"level": li, "format": d[2]}, sig="queries:" + qname(d[0]))
        base_fmt = builder.format
        base_model_levels = model.levels
    ctx.case(part, case, nt, classes, distinct_by_construction=by_construction)


# --------------------------------------------------------------------------------- generators
def el_opt():
    return st.fixed_dictionaries({"long": st.sampled_from(LONGS), "short": st.sampled_from([None, None] + SHORTS)})


def el_copt():
    return st.fixed_dictionaries({"long": st.sampled_from(LONGS), "short": st.sampled_from([None, None] + SHORTS),
                                  "aliases": st.lists(st.sampled_from(ALIASES), max_size=2)})


def el_arg():
    return st.fixed_dictionaries({"name": st.sampled_from(ARGS), "kind": st.sampled_from(["req", "req", "opt", "opt", "multi", "multireq"])})


def el_name():
    return st.fixed_dictionaries({"name": st.sampled_from(["n1", "n2"])})


def op_st():
    return st.one_of(
        el_opt().map(lambda e: {"op": "opt", "el": e}),
        el_opt().map(lambda e: {"op": "opt", "el": e}),
        el_copt().map(lambda e: {"op": "copt", "el": e}),
        el_copt().map(lambda e: {"op": "copt", "el": e}),
        el_arg().map(lambda e: {"op": "arg", "el": e}),
        el_arg().map(lambda e: {"op": "arg", "el": e}),
        el_arg().map(lambda e: {"op": "arg", "el": e}),
        el_name().map(lambda e: {"op": "name", "el": e}),
        st.lists(el_opt(), max_size=2).map(lambda l: {"op": "set_opts", "els": l}),
        st.lists(el_copt(), max_size=2).map(lambda l: {"op": "set_copts", "els": l}),
        st.lists(el_arg(), max_size=2).map(lambda l: {"op": "set_args", "els": l}),
        st.lists(el_name(), max_size=2).map(lambda l: {"op": "set_names", "els": l}),
    )


def case_st(max_ops):
    return st.fixed_dictionaries({
        "levels": st.lists(st.lists(op_st(), max_size=max_ops), min_size=1, max_size=3),
    })


def O(long, short=None):
    return {"op": "opt", "el": {"long": long, "short": short}}


def CO(long, short=None, aliases=()):
    return {"op": "copt", "el": {"long": long, "short": short, "aliases": list(aliases)}}


def A(name, kind):
    return {"op": "arg", "el": {"name": name, "kind": kind}}


REDUCED = [
    O("aa"), O("aa", "a"), O("ab", "a"), O("ab", "b"),
    CO("aa"), CO("ac", "a"), CO("ac", None, ["ab"]), CO("ac", "b", ["a"]),
    A("x", "req"), A("x", "opt"), A("x", "multi"), A("y", "req"), A("y", "opt"), A("y", "multi"), A("x", "multireq"),
    {"op": "name", "el": {"name": "n1"}},
    {"op": "set_opts", "els": []}, {"op": "set_opts", "els": [{"long": "ab", "short": "b"}]},
    {"op": "set_copts", "els": []}, {"op": "set_args", "els": []},
    {"op": "set_args", "els": [{"name": "y", "kind": "req"}]}, {"op": "set_names", "els": []},
]
BASE_SHAPES = [
    [],
    [[O("aa", "a")]],
    [[A("x", "opt")]],
    [[CO("ac", "b", ["ab"]), A("x", "req")]],
    [[O("aa")], [A("x", "req"), CO("ac")]],
]


def shard_exhaustive(ctx, arg):
    bi, first, n = arg
    base = BASE_SHAPES[bi]
    for rest in itertools.product(range(len(REDUCED)), repeat=n - 1):
        ops = [REDUCED[first]] + [REDUCED[i] for i in rest]
        check_history(ctx, {"levels": base + [ops]}, part="exhaustive", by_construction=True)


PARTS = {"history": check_history, "exhaustive": lambda ctx, c: check_history(ctx, c, part="exhaustive")}


HYP = {"history": (lambda ctx: case_st(7 if ctx.tier == "quick" else 10), check_history)}

def run(ctx):
    quick = ctx.tier == "quick"
    ctx.hyp_sharded("history", 6000 if quick else 60000, salt=1)
    n = 2 if quick else 4
    jobs = [(bi, f, n) for bi in range(len(BASE_SHAPES)) for f in range(len(REDUCED))]
    ctx.parallel("shard_exhaustive", jobs)
    ctx.exhaustive("exhaustive", True, "all sequences of exactly %d ops (prefixes judged step by step) over %d ops x %d base shapes"
                   % (n, len(REDUCED), len(BASE_SHAPES)))
