"""C15 - section outputs keep the screen equal to the stacked section contents."""
import itertools
import os

from hypothesis import strategies as st

from vf import markup, term

LEVEL = "exploration"
WIDTH = 10
RULE = (
    "explicit-state exploration: every applicable operation sequence of an initial create plus N further ops (quick 5, "
    "thorough 6 over the full 17-op alphabet and 7 over a 12-op alphabet; prefixes are judged step by step) over up to 3 sections of one "
    "forced-ANSI buffered output at terminal width 10: create, write_line(text), overwrite(text), clear(), "
    "clear(k <= current line count), texts {short, exactly width, width+1, 2.5 x width, two lines, bold-tagged, "
    "tab-led}; after every op all bytes emitted so far are replayed on a terminal emulator (newline, CR, cursor-up, "
    "erase-below, deferred auto-wrap) and compared with the stacked model contents; the same sequences on a plain "
    "output; the same enumeration one op shorter on an output indented by 3 (sections inherit the indentation, so the "
    "exactly-width line wraps only because of it); plus Hypothesis sequences up to 40 ops with widths 5..20 and "
    "indentation 0/1/3/4 and writes that the verbosity gate suppresses. Non-trivial: a write to a section that is not "
    "the last one, a wrapped line, or a partial clear. Enumerated sequences are distinct by construction."
)
ASSUMPTIONS = [
    "terminal semantics: deferred auto-wrap (a line of exactly the width occupies one row), tab stops every 8 columns",
    "clear(k) is only called with 1 <= k <= number of logical lines of the section",
    "screen mismatches that involve a line with a tab that does not fit into one terminal row (a terminal clamps a tab at "
    "the right margin, the row accounting wraps it) are bucketed under C15.screen:tab-approximation (known finding)",
    "section.lines / section.content accounting is compared as a secondary clause (C15.accounting)",
]

B = markup.LT + "b" + markup.GT
EB = markup.LT + "/b" + markup.GT
TEXTS = {
    "short": "abc",
    "exact": "0123456789",
    "over": "0123456789X",
    "long": "ABCDEFGHIJKLMNOPQRSTUVWXY",
    "two": "l1\nl2",
    "bold": "x" + B + "bold" + EB + "y",
    "tab": "\tz",
    "midtab": "ab\tc",
}


def plain_of(text):
    return text.replace(B, "").replace(EB, "")


def full_alphabet():
    ops = [("create",)]
    for s in range(3):
        for t in ("short", "over", "two"):
            ops.append(("write", s, t))
    for s in range(2):
        ops.append(("overwrite", s, "short"))
        ops.append(("clear", s))
        ops.append(("clear1", s))
    ops.append(("write", 0, "exact"))
    return ops  # 1 + 9 + 6 + 1 = 17


def reduced_alphabet():
    return [("create",), ("write", 0, "short"), ("write", 0, "over"), ("write", 0, "two"), ("write", 1, "short"),
            ("write", 1, "long"), ("overwrite", 0, "short"), ("overwrite", 1, "over"), ("clear", 0), ("clear", 1),
            ("clear1", 0), ("clear1", 1)]


def inexact_tab(ops, width, indent=0):
    """True when some written line has a tab and does not fit into one terminal row: clikit accounts the line by
    its tab-expanded length, while a terminal clamps a tab at the right margin instead of wrapping it."""
    for o in ops:
        if o[0] in ("write", "overwrite"):
            text = TEXTS.get(o[2], o[2])
            for line in plain_of(text).split("\n"):
                if "\t" in line and len((" " * indent + line).expandtabs(8)) > width:
                    return True
    return False


class World(object):
    def __init__(self, ansi, width, indent=0, capable=False):
        from clikit.api.io import Output
        from clikit.formatter import AnsiFormatter, PlainFormatter
        from clikit.io.output_stream import BufferedOutputStream

        os.environ["COLUMNS"] = str(width)
        self.width = width
        self.ansi = ansi
        self.stream = BufferedOutputStream()
        if capable:
            # a stream that claims ANSI support (a terminal); with a formatter that disables ANSI the output is
            # still one "without ANSI support"
            class CapableStream(BufferedOutputStream):
                def supports_ansi(self):
                    return True

            self.stream = CapableStream()
        self.out = Output(self.stream, AnsiFormatter(forced=True) if ansi else PlainFormatter())
        self.indent = indent
        if indent:
            self.out.indent(indent)  # sections take over the indentation of their output when they are created
        self.sections = []
        self.model = []  # per section: list of logical lines (plain text)
        self.appended = []  # plain mode: all lines in call order
        self.nt = False

    def apply(self, op):
        """Returns False when the op is not applicable in this state (then nothing was done)."""
        k = op[0]
        if k == "create":
            if len(self.sections) >= 3:
                return False
            self.sections.append(self.out.section())
            self.model.append([])
            if self.ansi and len(self.sections) == 1:
                # an unrelated decorated output gets a section with content right after this output's first
                # section: sections of another output are nobody's business here
                from clikit.api.io import Output
                from clikit.formatter import AnsiFormatter
                from clikit.io.output_stream import BufferedOutputStream

                self.decoy = Output(BufferedOutputStream(), AnsiFormatter(forced=True)).section()
                self.decoy.write_line("decoy line of another output")
            return True
        s = op[1]
        if s >= len(self.sections):
            return False
        sec, lines = self.sections[s], self.model[s]
        if k == "write":
            text = op[2] if op[2] not in TEXTS else TEXTS[op[2]]
            sec.write_line(text)
            new = [self.ind(l) for l in plain_of(text).split("\n")]
            lines.extend(new)
            self.appended.extend(new)
            if s < len(self.sections) - 1 or any(len(l.expandtabs(8)) > self.width for l in new):
                self.nt = True
        elif k == "wv":
            # a write that the verbosity gate suppresses (flag VERBOSE on an output of normal verbosity):
            # nothing is shown and nothing is remembered
            text = op[2] if op[2] not in TEXTS else TEXTS[op[2]]
            sec.write_line(text, 1)
            self.nt = True
        elif k == "overwrite":
            text = op[2] if op[2] not in TEXTS else TEXTS[op[2]]
            sec.overwrite(text)
            new = [self.ind(l) for l in plain_of(text).split("\n")]
            del lines[:]
            lines.extend(new)
            self.appended.extend(new)
        elif k == "clear":
            sec.clear()
            del lines[:]
        elif k in ("clear1", "cleark"):
            n = 1 if k == "clear1" else op[2]
            if not lines:
                return False
            n = min(max(n, 1), len(lines))
            sec.clear(n)
            del lines[-n:]
            self.nt = True
        return True

    def ind(self, line):
        """A written line as it is shown: non-empty lines carry the indentation."""
        return " " * self.indent + line if line else line

    def expected_screen(self):
        t = term.Terminal(self.width)
        for lines in self.model:
            for l in lines:
                t.feed(l + "\n")
        return t.lines(), t.cursor()


def run_sequence(ctx, part, case, by_construction=False):
    ops = [tuple(o) for o in case["ops"]]
    width = case.get("width", WIDTH)
    indent = case.get("indent", 0)
    nt = False
    for ansi, capable in ((True, False), (False, False), (False, True)):
        w = World(ansi, width, indent, capable)
        for i, op in enumerate(ops):
            try:
                applied = w.apply(op)
            except Exception as e:
                ctx.fail(part, "C15.screen" if ansi else "C15.plain", case, "op returns", {"op": i}, exc=e)
                return
            if not applied:
                continue
            data = w.stream.fetch()
            if ansi:
                t = term.Terminal(width)
                try:
                    t.feed(data)
                except term.Unmodelled as e:
                    from vf.runner import HarnessError

                    raise HarnessError("terminal emulator: %s" % e)
                want, wcur = w.expected_screen()
                if t.lines() != want:
                    sig = "partial-clear" if any(o[0] in ("clear1", "cleark") for o in ops[: i + 1]) else "screen"
                    if inexact_tab(ops[: i + 1], width, indent):
                        sig = "tab-approximation"
                    ctx.fail(part, "C15.screen", case, want, {"after_op": i, "screen": t.lines()}, sig=sig)
                    return
                if t.cursor() != wcur:
                    ctx.fail(part, "C15.screen", case, list(wcur), {"after_op": i, "cursor": list(t.cursor())},
                             sig="tab-approximation" if inexact_tab(ops[: i + 1], width, indent) else "cursor")
                    return
                for si, sec in enumerate(w.sections):
                    rows = sum(len(term.chunk(l.expandtabs(8), width)) for l in w.model[si])
                    if sec.lines != rows and not inexact_tab(ops[: i + 1], width, indent):
                        ctx.fail(part, "C15.accounting", case, rows, {"after_op": i, "section": si, "lines": sec.lines},
                                 sig="lines")
                        return
            else:
                if "\x1b" in data:
                    ctx.fail(part, "C15.plain", case, "no control codes", data, sig="escape")
                    return
                want = "".join(l + "\n" for l in w.appended)
                if data != want:
                    ctx.fail(part, "C15.plain", case, want, {"after_op": i, "stream": data}, sig="appended-lines")
                    return
        nt = nt or w.nt
    ctx.case(part, case, nt, distinct_by_construction=by_construction)


def check_exhaustive(ctx, case):
    run_sequence(ctx, "exhaustive", case)


def check_random(ctx, case):
    run_sequence(ctx, "random", case)


PARTS = {"exhaustive": check_exhaustive, "random": check_random}


def shard_exhaustive(ctx, arg):
    which, prefix, n = arg[:3]
    indent = arg[3] if len(arg) > 3 else 0
    alpha = full_alphabet() if which == "full" else reduced_alphabet()
    prefix = [tuple(p) for p in prefix]
    for rest in itertools.product(alpha, repeat=n - len(prefix)):
        ops = prefix + list(rest)
        # canonical form: skip sequences with an inapplicable op (they equal a shorter sequence)
        n_sec = 0
        ok = True
        for o in ops:
            if o[0] == "create":
                n_sec += 1
                if n_sec > 3:
                    ok = False
                    break
            elif o[1] >= n_sec:
                ok = False
                break
        if not ok:
            continue
        case = {"ops": [list(o) for o in ops]}
        if indent:
            case["indent"] = indent
        run_sequence(ctx, "exhaustive", case, by_construction=True)


def op_st():
    texts = st.one_of(st.sampled_from(sorted(TEXTS)),
                      st.lists(st.sampled_from(["a", "b", " ", "中", "\n", "xyz", "0123456789"]), min_size=1, max_size=6).map("".join))
    sec = st.integers(0, 2)
    return st.one_of(
        st.just(("create",)),
        st.tuples(st.just("write"), sec, texts), st.tuples(st.just("write"), sec, texts),
        st.tuples(st.just("overwrite"), sec, texts),
        st.tuples(st.just("wv"), sec, texts),
        st.tuples(st.just("clear"), sec),
        st.tuples(st.just("cleark"), sec, st.integers(1, 4)),
    )


def _random_case(ctx):
    return st.fixed_dictionaries({
        "ops": st.lists(op_st(), min_size=1, max_size=40).map(lambda l: [["create"]] + [list(o) for o in l]),
        "width": st.sampled_from([5, 10, 10, 13, 20]),
        "indent": st.sampled_from([0, 0, 0, 1, 3, 4]),
    })


HYP = {"random": (_random_case, check_random)}

def run(ctx):
    quick = ctx.tier == "quick"
    if quick:
        jobs = [("full", [["create"], list(a), list(b)], 6) for a in full_alphabet() for b in full_alphabet()]
    else:
        jobs = [("full", [["create"], list(a), list(b)], 7) for a in full_alphabet() for b in full_alphabet()]
        jobs += [("reduced", [["create"], list(a), list(b)], 8) for a in reduced_alphabet() for b in reduced_alphabet()]
    # the same on an output indented by 3 (sections inherit it; the 10-character line then wraps only because of it)
    jobs += [("full", [["create"], list(a), list(b)], 5 if quick else 6, 3) for a in full_alphabet() for b in full_alphabet()]
    ctx.parallel("shard_exhaustive", jobs)
    ctx.exhaustive("exhaustive", True, "all applicable sequences after an initial create: %s"
                   % ("5 further ops (17-op alphabet), 4 further ops on an output indented by 3" if quick else
                      "6 further ops (17-op alphabet) and 7 (12-op alphabet), 5 further ops on an output indented by 3"))
    case = st.fixed_dictionaries({
        "ops": st.lists(op_st(), min_size=1, max_size=40).map(lambda l: [["create"]] + [list(o) for o in l]),
        "width": st.sampled_from([5, 10, 10, 13, 20]),
    })
    ctx.hyp_sharded("random", 4000 if quick else 60000, salt=1)
