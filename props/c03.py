"""C03 - the resolver selects the deepest command named by the leading tokens."""
from hypothesis import strategies as st

from vf import gen_args, gen_tree
from vf.gen_args import typed_equal

LEVEL = "exploration"
RULE = (
    "Hypothesis: command tree (depth <= 3, fan-out <= 3, aliases, default / anonymous / hidden / disabled commands, "
    "arguments and options stacked legally along every path, options named like the command's own sub-commands) x bare or default application config x a line built by "
    "walking a random path (names or aliases) and spelling a valid assignment for the intended command (its default "
    "sub-command's name omitted) with options after the path and an optional '--' tail; line kinds: valid, "
    "wrong token after a valid prefix, the name of an anonymous or disabled command after the path, undefined first token, partial path without arguments, tail after '--' that "
    "repeats command names; plus the alias-respelled variant of every line. Outcome compared with a 25-line "
    "reference resolver; selection also observed through run() with recording handlers. In a quarter of the cases one "
    "plain command is added to the running application after other lines were resolved; in a third the configuration "
    "is written with the create_command / create_sub_command / add_aliases style; in every case the collections of "
    "all / named / default (sub-)commands, their predicates, lookups by name and alias and the parent links of the "
    "built application are compared with the tree. Non-trivial: path depth "
    ">= 2, an alias on the path, a default/anonymous child involved, or a wrong token after a valid prefix. "
    "Distinct by hash of (tree, tokens)."
)
ASSUMPTIONS = [
    "parsability of a default candidate is decided with the real parser on that command's format (the parser is C01/C02's subject)",
    "own options of the intended command are only used when it is the first default candidate (an option unknown to an "
    "earlier candidate raises the no-such-option error out of the resolver, which the statement does not define)",
    "argument values never equal a command name or alias of the tree except after '--'",
    "application-level switches (help, version, ...) are not given here (C09)",
]

BOGUS = ["bogus", "nope", "servr", "ad"]


class Recorder(object):
    def __init__(self):
        self.calls = []

    def handler_for(self, path, cmd):
        rec = self

        class H(object):
            def handle(self, args, io, command):
                rec.calls.append((command.full_name, args.arguments(False), args.options(False)))
                return 0

        return H()


def real_outcome(app, tokens):
    from clikit.api.args.exceptions import CannotParseArgsException, NoSuchOptionException
    from clikit.api.resolver.exceptions import CannotResolveCommandException
    from clikit.args import ArgvArgs

    try:
        rc = app.resolve_command(ArgvArgs(["prog"] + list(tokens)))
    except CannotResolveCommandException as e:
        msg = str(e)
        if "is not defined" in msg:
            import re

            return ("undefined", re.match(r'The command "(.*)" is not defined\.', msg, re.S).group(1)), None
        if "No default command" in msg:
            return ("no-default",), None
        return ("resolve-error", msg), None
    except CannotParseArgsException as e:
        return ("parse-error",), None
    except NoSuchOptionException as e:
        return ("no-such-option",), None
    return ("command", rc.command.full_name.split(" ")), rc


def parsable_fn(app, tokens):
    from clikit.api.args.exceptions import CannotParseArgsException
    from clikit.args import ArgvArgs

    def parsable(path):
        cmd = gen_tree.find_real(app, path)
        try:
            cmd.parse(ArgvArgs(["prog"] + list(tokens)))
        except CannotParseArgsException:
            return False
        return True

    return parsable


def check_line(ctx, case):
    from clikit.args import ArgvArgs
    from clikit.io.input_stream import StringInputStream
    from clikit.io.output_stream import BufferedOutputStream

    tree, cfgk = case["tree"], case["config"]
    rec = Recorder()
    try:
        app = gen_tree.build_app(tree, cfgk, rec.handler_for, late=case.get("late"), fluent=bool(case.get("fluent")))
    except Exception as e:
        raise AssertionError("generator built an illegal tree: %r %r" % (e, tree))
    # the command collections of every level answer their queries as the configuration implies
    try:
        bad = gen_tree.structure_mismatches(app, tree, cfgk)
    except Exception as e:
        ctx.fail("line", "C03.structure", case, "structural queries answer", None, exc=e)
        return
    if bad:
        ctx.fail("line", "C03.structure", case, bad[0][1], {"what": bad[0][0], "observed": bad[0][2]}, sig="structure")
        return
    classes = ["c03:" + case["kind"]] + ["c03:" + c for c in case.get("classes", [])] + (["c03:late-added"] if case.get("late") else [])
    nt = case.get("depth", 0) >= 2 or "alias" in case.get("classes", []) or case.get("default_involved") \
        or case["kind"] in ("wrong-token", "unnameable")
    ctx.case("line", {"tree": tree, "config": cfgk, "tokens": case["tokens"], "late": case.get("late"),
                      "fluent": case.get("fluent")}, nt, classes + (["c03:fluent-config"] if case.get("fluent") else []))
    results = []
    wants = {}
    for label, tokens in [("line", case["tokens"])] + [(k, v) for k, v in sorted(case.get("variants", {}).items())]:
        from clikit.api.args.exceptions import NoSuchOptionException

        try:
            model = gen_tree.resolve_model(tree, cfgk, tokens, parsable_fn(app, tokens))
            if model[0] == "command" and not parsable_fn(app, tokens)(model[1]):
                want = ("parse-error",)
            else:
                want = model
        except NoSuchOptionException:
            # an earlier default candidate does not know an option of the line: which error wins is not defined
            ctx.count("c03:unspecified-option-unknown-to-candidate")
            continue
        try:
            got, rc = real_outcome(app, tokens)
        except Exception as e:
            ctx.fail("line", "C03.selection", case, list(want), label, exc=e)
            continue
        if list(got) != list(want):
            clause = "C03.selection"
            if want[0] == "undefined" or got[0] == "undefined":
                clause = "C03.undefined"
            elif want[0] == "no-default" or got[0] == "no-default":
                clause = "C03.no-default"
            ctx.fail("line", clause, case, list(want), {"variant": label, "tokens": tokens, "got": list(got)},
                     sig=label if label != "line" else None)
            continue
        results.append((label, got, rc))
        wants[label] = list(want)
        # through run(): exactly the selected handler, or none
        rec.calls = []
        out, err = BufferedOutputStream(), BufferedOutputStream()
        try:
            status = app.run(ArgvArgs(["prog"] + list(tokens)), StringInputStream(""), out, err)
        except Exception as e:
            ctx.fail("line", "C03.selection", case, "run returns", label, exc=e)
            continue
        if want[0] == "command":
            names = [c[0] for c in rec.calls]
            builtin = cfgk == "default" and want[1] == ["help"]
            if builtin:
                if names or status != 0:
                    ctx.fail("line", "C03.selection", case, "built-in help runs alone, status 0",
                             {"variant": label, "handlers": names, "status": status}, sig="run-help")
            elif names != [" ".join(want[1])]:
                ctx.fail("line", "C03.selection", case, [" ".join(want[1])], {"variant": label, "handlers": names},
                         sig="run")
        else:
            if rec.calls:
                ctx.fail("line", "C03.undefined", case, "no handler runs", {"variant": label, "handlers": rec.calls},
                         sig="run")
            if status == 0:
                ctx.fail("line", "C03.undefined", case, "non-zero status", {"variant": label, "status": status}, sig="status")
            if want[0] == "undefined" and "is not defined" not in (out.fetch() + err.fetch()):
                ctx.fail("line", "C03.undefined", case, "'is not defined' reported", [out.fetch(), err.fetch()], sig="report")
    # the intended assignment is what the selected command sees
    base = [r for r in results if r[0] == "line"]
    if base and base[0][1][0] == "command" and case.get("expect") and base[0][1][1] == case.get("intended"):
        rc = base[0][2]
        exp = case["expect"]
        got = {"options_set": rc.args.options(False), "arguments_set": rc.args.arguments(False)}
        for k in got:
            if not typed_equal(got[k], exp[k]):
                ctx.fail("line", "C03.arguments", case, exp[k], got[k], sig=k)
    # variants keep selection and parsed values
    for label, got, rc in results:
        if label == "line" or not base:
            continue
        if label.startswith("tail") and (got[0] != "command" or base[0][1][0] != "command"):
            continue  # a different tail may not fit the command's arguments; selection is then not observable
        if label.startswith("tail") and wants.get(label) != wants.get("line"):
            # several default sub-commands: which one is the first PARSABLE one legitimately depends on the number
            # of positionals, also of those after '--' (both lines agree with the reference model individually)
            ctx.count("c03:tail-changes-first-parsable-default")
            continue
        if got != base[0][1]:
            ctx.fail("line", "C03." + label.split("-")[0], case, list(base[0][1]), {"variant": label, "got": list(got)})
        elif rc is not None and base[0][2] is not None and label.startswith("alias"):
            a, b = base[0][2].args, rc.args
            if not typed_equal([a.arguments(False), a.options(False)], [b.arguments(False), b.options(False)]):
                ctx.fail("line", "C03.alias", case, [a.arguments(False), a.options(False)],
                         [b.arguments(False), b.options(False)], sig="values")


@st.composite
def line_case(draw, descriptions=False):
    cfgk = draw(st.sampled_from(["bare", "bare", "default"]))
    tree = draw(gen_tree.tree_st(collide=True))
    case = draw(line_for(tree, cfgk))
    cands = gen_tree.late_candidates(tree)
    if cands and draw(st.integers(0, 3)) == 0:
        # one command is added to the running application after other command lines were resolved; prefer one
        # that lies on the path of this line
        on_path = [p for p in cands if case.get("intended") and p == list(case["intended"])[: len(p)]]
        case["late"] = draw(st.sampled_from(on_path or cands))
    if draw(st.integers(0, 2)) == 0:
        case["fluent"] = True  # the configuration is written with create_command / create_sub_command / add_aliases
    return case


@st.composite
def line_for(draw, tree, cfgk):
    # walk
    children = gen_tree.top_commands(tree, cfgk)
    path = []
    node = None
    while True:
        cands = [c for c in children if gen_tree.is_enabled(c) and gen_tree.is_named(c) and not c.get("builtin")]
        if not cands or (path and draw(st.integers(0, 2)) == 0) or (not path and draw(st.integers(0, 9)) == 0):
            break
        node = draw(st.sampled_from(cands))
        path.append(node["name"])
        children = node["subs"]
    if node is None:
        defaults = [c for c in gen_tree.top_commands(tree, cfgk) if gen_tree.is_enabled(c) and gen_tree.is_default(c)]
    else:
        defaults = [s for s in node["subs"] if gen_tree.is_enabled(s) and gen_tree.is_default(s)]
    case = {"tree": tree, "config": cfgk, "depth": len(path), "default_involved": bool(defaults), "variants": {}}
    if node is None and not defaults:
        case.update(kind="no-default", tokens=[], intended=None)
        return case
    if defaults:
        idx = 0 if draw(st.integers(0, 3)) else draw(st.integers(0, len(defaults) - 1))
        target = defaults[idx]
        tpath = path + [target["name"]]
        omit = 1 if gen_tree.is_named(target) else 0
        first = idx == 0
    else:
        target, tpath, omit, first = node, path, 0, True
    fmt = gen_tree.format_for(tree, cfgk, tpath)
    app_opts = {o["long"] for o in gen_tree.DEFAULT_APP_OPTIONS}
    allowed = {o["long"] for o in gen_args.fmt_options(fmt)} - app_opts
    if not first:
        allowed -= {o["long"] for o in target["opts"]}
    if target.get("builtin"):
        # the built-in help command: no generated arguments (they would be looked up as command names)
        line = {"tokens": [], "expect": None, "classes": []}
    else:
        line = draw(gen_args.line_st(fmt, structured=True, omit=omit, options_after_names=True, allowed_options=allowed))
    tokens = list(line["tokens"])
    kind = draw(st.sampled_from(["valid"] * 5 + ["wrong-token", "undefined", "partial", "tail", "unnameable", "unnameable"]))
    siblings = gen_tree.top_commands(tree, cfgk) if node is None else node["subs"]
    unnameable = [c["name"] for c in siblings if not gen_tree.is_enabled(c) or not gen_tree.is_named(c)]
    if kind == "unnameable" and not unnameable:
        kind = "valid"
    n_names = len([u for u in line.get("units", []) if u["kind"] == "pos" and u.get("what") == "name"])
    case.update(kind=kind, intended=tpath, expect=line["expect"], classes=line["classes"])
    if kind == "wrong-token" and path:
        tokens.insert(n_names, draw(st.sampled_from(BOGUS)))
        case["expect"] = None
    elif kind == "unnameable":
        # the name of an anonymous or disabled command is not a command name
        tokens = tokens[:n_names] if omit == 0 else [t for t in tokens[:n_names]]
        tokens = [t for t in tokens[: len(path)]] + [draw(st.sampled_from(unnameable))]
        case["expect"] = None
    elif kind == "undefined":
        tokens = [draw(st.sampled_from(BOGUS))] + tokens
        case["expect"] = None
    elif kind == "partial":
        tokens = tokens[:n_names]
        case["expect"] = None
    elif kind == "tail":
        names = [c["name"] for c in tree["commands"]] + ["help"]
        subs_here = [c["name"] for c in (node["subs"] if node is not None else tree["commands"])]
        names += ["--" + n for n in subs_here] + subs_here
        extra = draw(st.lists(st.sampled_from(names + ["--foo", "-h"]), min_size=1, max_size=2))
        tokens = tokens + ([] if "--" in tokens else ["--"]) + extra
        case["expect"] = None
        base = list(line["tokens"]) + ([] if "--" in line["tokens"] else ["--"])
        case["variants"]["tail-other"] = base + draw(st.lists(st.sampled_from(names), min_size=1, max_size=2))
    else:
        case["kind"] = "valid"
    case["tokens"] = tokens
    # alias variant: respell every leading command name
    nodes = []
    ch = gen_tree.top_commands(tree, cfgk)
    for nm in tpath:
        nd = [c for c in ch if c["name"] == nm][0]
        nodes.append(nd)
        ch = nd["subs"]
    named_nodes = [n for n in nodes if gen_tree.is_named(n)]
    if case["kind"] in ("valid", "partial", "wrong-token") and n_names:
        v = list(tokens)
        changed = False
        for i in range(min(n_names, len(named_nodes))):
            sp = [named_nodes[i]["name"]] + named_nodes[i]["aliases"]
            if v[i] in sp and len(sp) > 1:
                v[i] = draw(st.sampled_from([s for s in sp if s != v[i]]))
                changed = True
        if changed:
            case["variants"]["alias"] = v
            if "alias" not in case["classes"]:
                case["classes"] = list(case["classes"]) + ["alias"]
    return case


PARTS = {"line": check_line}


HYP = {"line": (lambda ctx: line_case(), check_line)}

def run(ctx):
    quick = ctx.tier == "quick"
    ctx.hyp_sharded("line", 8000 if quick else 80000, salt=1)
