"""C05 - parsing is a pure function of the command line, the format and the mode."""
import copy

from hypothesis import strategies as st

from props import c02
from vf import gen_args
from vf.gen_args import typed_equal

LEVEL = "exploration"
RULE = (
    "Hypothesis histories: 1-2 generated formats, then 1-6 (quick) / 1-12 (thorough) parse requests, each a valid C01 "
    "line, a C02 single-fault mutant or token soup for one of the formats, strict or lenient, all issued to ONE "
    "DefaultArgsParser and each compared with a brand-new parser; the argv list, the raw args and the format "
    "listings are snapshotted before and after every step; 'shared' part: one parser installed with set_args_parser "
    "on an application config and driven through Application.run over 2-6 command lines, compared with a freshly "
    "built application. Non-trivial: some step is preceded by a step that set an option or argument which the step "
    "itself does not give. Distinct by hash of the history."
)
ASSUMPTIONS = [
    "outcomes are compared as (four result maps) or (exception class, message)",
    "format listings compared: option / argument / command-name keys per query and the identity of the elements",
]


def fmt_snapshot(fmt):
    snap = []
    f = fmt
    while f is not None:
        snap.append((
            [(k, id(v)) for k, v in f.get_options(False).items()],
            [(k, id(v)) for k, v in f.get_arguments(False).items()],
            [(c.string, tuple(c.aliases), id(c)) for c in f.get_command_names(False)],
            [(o.long_name, o.short_name, o.flags, repr(o.default)) for o in f.get_options(False).values()],
            [(a.name, a.flags, repr(a.default)) for a in f.get_arguments(False).values()],
        ))
        f = f.base_format
    return snap


def outcome_of(parser, raw, fmt, lenient):
    try:
        a = parser.parse(raw, fmt, lenient)
    except Exception as e:
        return ["exc", type(e).__name__, str(e)]
    return ["ok", a.options(False), a.options(True), a.arguments(False), a.arguments(True)]


def check_history(ctx, case):
    from clikit.args import ArgvArgs
    from clikit.args.default_args_parser import DefaultArgsParser

    fmts = [gen_args.build_format(f["fmt"], f["via_builder"]) for f in case["formats"]]
    shared = DefaultArgsParser()
    nt = False
    prev_set = None
    outs = []
    slim = {"formats": [f["fmt"] for f in case["formats"]],
            "steps": [[s["format"], s["tokens"], s["lenient"]] for s in case["steps"]]}
    for si, step in enumerate(case["steps"]):
        fmt = fmts[step["format"]]
        argv = ["prog"] + list(step["tokens"])
        argv_before = list(argv)
        raw = ArgvArgs(argv)
        if argv != argv_before:
            ctx.fail("history", "C05.inputs-untouched", case, argv_before, argv, sig="argv-on-wrap")
        tokens_before = list(raw.tokens)
        opt_tokens_before = list(raw.option_tokens)
        snap_before = fmt_snapshot(fmt)
        fresh_raw = ArgvArgs(list(argv_before))
        got = outcome_of(shared, raw, fmt, step["lenient"])
        exp = outcome_of(DefaultArgsParser(), fresh_raw, fmt, step["lenient"])
        outs.append(got[0])
        if not typed_equal(got, exp):
            ctx.fail("history", "C05.same-as-fresh", case, exp, {"step": si, "got": got})
        if argv != argv_before:
            ctx.fail("history", "C05.inputs-untouched", case, argv_before, argv, sig="argv")
        if list(raw.tokens) != tokens_before or list(raw.option_tokens) != opt_tokens_before:
            ctx.fail("history", "C05.inputs-untouched", case, tokens_before, list(raw.tokens), sig="raw-args")
        if fmt_snapshot(fmt) != snap_before:
            ctx.fail("history", "C05.inputs-untouched", case, "format listings unchanged", "step %d" % si, sig="format")
        # the process's own argument list, wrapped by default (ArgvArgs() without an argument), is only read
        import sys

        saved_argv = sys.argv
        try:
            sys.argv = list(argv_before)
            default_raw = ArgvArgs()
            again_raw = ArgvArgs()
            if sys.argv != argv_before or default_raw.tokens is sys.argv or list(again_raw.tokens) != tokens_before \
                    or default_raw.script_name != "prog" or again_raw.script_name != "prog":
                ctx.fail("history", "C05.inputs-untouched", case, argv_before,
                         {"sys.argv after ArgvArgs()": list(sys.argv), "second wrap": list(again_raw.tokens)},
                         sig="sys-argv")
        finally:
            sys.argv = saved_argv
        # the wrapped list is a copy
        argv.append("--late")
        argv[0:1] = ["other"]
        if list(raw.tokens) != tokens_before or raw.script_name != "prog":
            ctx.fail("history", "C05.argv-copy", case, tokens_before, list(raw.tokens))
        now_set = None
        if got[0] == "ok":
            now_set = set(got[1]) | set(got[3])
        if prev_set is not None and now_set is not None and (prev_set - now_set):
            nt = True
        if now_set is not None:
            prev_set = now_set
    ctx.case("history", slim, nt, ["c05:step-" + o for o in outs])


@st.composite
def history_case(draw, max_steps):
    n_f = draw(st.integers(1, 2))
    formats = [{"fmt": draw(gen_args.format_st(max_levels=2)), "via_builder": draw(st.booleans())} for _ in range(n_f)]
    steps = []
    for _ in range(draw(st.integers(1, max_steps))):
        fi = draw(st.integers(0, n_f - 1))
        fmt = formats[fi]["fmt"]
        kind = draw(st.sampled_from(["valid", "valid", "valid", "fault", "soup"]))
        if kind == "soup":
            tokens = draw(st.lists(st.sampled_from(c02.ALPHABET + ["--foo", "-f", "--bar=1", "x"]), max_size=4))
        else:
            line = draw(gen_args.line_st(fmt, structured=True))
            tokens = line["tokens"]
            if kind == "fault":
                c = {"fmt": fmt, "units": line["units"], "tokens": tokens}
                for f in draw(st.permutations(c02.FAULTS)):
                    t = c02.apply_fault(c, f, draw(st.integers(0, 5)))
                    if t is not None:
                        tokens = t
                        break
        steps.append({"format": fi, "tokens": tokens, "lenient": draw(st.integers(0, 3)) == 0, "kind": kind})
    return {"formats": formats, "steps": steps}


HASH_SEED_CHILD = r"""
import sys
sys.path.insert(0, sys.argv[1])
from clikit.api.args.format import ArgsFormat, Argument, CommandName, Option
from clikit.args import ArgvArgs
from clikit.args.default_args_parser import DefaultArgsParser
fmt = ArgsFormat([CommandName("copy"), Argument("source", Argument.REQUIRED), Argument("target", Argument.REQUIRED),
                  Argument("mode", Argument.REQUIRED), Argument("owner", Argument.REQUIRED),
                  Option("force", "f"), Option("tag", "t", Option.MULTI_VALUED), Option("level", "l", Option.REQUIRED_VALUE)])
for tokens in ([], ["copy"], ["copy", "-f"], ["copy", "a"], ["copy", "a", "b"], ["copy", "a", "b", "c", "d", "-t", "x", "-t", "y", "-l", "2"],
               ["copy", "--nope"], ["copy", "a", "b", "c", "d", "e"]):
    for lenient in (False, True):
        try:
            a = DefaultArgsParser().parse(ArgvArgs(["prog"] + tokens), fmt, lenient)
            print(tokens, lenient, "ok", list(a.arguments(True).items()), list(a.options(True).items()))
        except Exception as e:
            print(tokens, lenient, type(e).__name__, str(e))
"""


def check_hash_seed(ctx, case):
    """The same parses in interpreters that differ only in their string-hash seed: identical results and error texts."""
    import subprocess
    import sys

    from vf import runner

    ctx.case("hash-seed", case, True)
    outs = {}
    for seed in case["seeds"]:
        env = dict(os.environ, PYTHONHASHSEED=str(seed))
        p = subprocess.run([sys.executable, "-c", HASH_SEED_CHILD, runner.REPO_SRC], env=env, stdout=subprocess.PIPE,
                           stderr=subprocess.STDOUT, text=True, timeout=120)
        outs[seed] = p.stdout
    first = outs[case["seeds"][0]]
    if "Traceback" in first or not first.strip():
        raise AssertionError("hash-seed child failed: %s" % first[-500:])
    for seed, out in outs.items():
        if out != first:
            diff = [(a, b) for a, b in zip(first.splitlines(), out.splitlines()) if a != b][:2]
            ctx.fail("hash-seed", "C05.same-as-fresh", case, {"seed %s" % case["seeds"][0]: [d[0] for d in diff]},
                     {"seed %s" % seed: [d[1] for d in diff]}, sig="depends-on-hash-seed")
            return


PARTS = {"history": check_history, "hash-seed": check_hash_seed}


HYP = {"history": (lambda ctx: history_case(6 if ctx.tier == "quick" else 12), check_history)}
import os  # noqa: E402

def run(ctx):
    quick = ctx.tier == "quick"
    ctx.hyp_sharded("history", 6000 if quick else 60000, salt=1)
    check_hash_seed(ctx, {"seeds": [0, 1, 2, 3] if quick else list(range(12))})
    try:
        from props import c17
    except ImportError:
        c17 = None
    if c17 is not None and hasattr(c17, "run_shared_parser"):
        c17.run_shared_parser(ctx)
