"""C02 - malformed command lines are rejected with the documented errors and only those."""
import itertools

from hypothesis import strategies as st

from vf import gen_args
from vf.gen_args import typed_equal

LEVEL = "exploration"
RULE = (
    "soup: every token sequence up to length 3 (quick) / 4 (thorough; length 5-6 sampled by Hypothesis) over the "
    "26-token adversarial alphabet ('', -, --, ---, --=, -=, known/unknown long and short options with and "
    "without =value, grouped shorts, negative numbers, null, words) instantiated against each of the 60 small "
    "formats (argument shapes x option shapes incl. no arguments at all, typed optional-value options, command "
    "names), strict and lenient; faults: Hypothesis C01 lines with exactly one fault (drop required positional, "
    "surplus positional, unknown long/short option (also inside a short-flag group), value attached to a flag, required value stripped or left empty, ill-typed "
    "value). Non-trivial (soup): >= 1 option-like token and >= 1 of {'', -, --, negative number, token with '='}; "
    "every fault mutant is non-trivial. Soup cases are distinct by construction, fault cases by hash."
)
ASSUMPTIONS = [
    "ValueError subclasses count as ValueError; the two library parse errors are identified with isinstance",
    "lenient mode may still raise ValueError for an ill-typed value (the statement only excludes the two parse errors)",
]

ALPHABET = ["", "-", "--", "---", "--=", "-=", "-x", "--known", "--known=v", "--known=", "-k", "-kv", "-kk", "-ku",
            "-jk", "--unknown", "--unknown=1", "-u", "-5", "-1.5", "null", "word", "7", "true", "--known=a\nb", "-k\n"]


def soup_formats():
    arg_shapes = [
        [],
        [("a1", "req", "s")],
        [("a1", "opt", "s")],
        [("a1", "req", "s"), ("a2", "opt", "i")],
        [("a1", "opt", "b"), ("rest", "multi", "s")],
        [("rest", "multireq", "f")],
    ]
    opt_shapes = [
        [],
        [("known", "k", "none", "s", False, None)],
        [("known", "k", "req", "s", False, None)],
        [("known", "k", "opt", "s", False, None)],
        [("known", "k", "opt", "i", False, None)],
        [("known", "k", "opt", "f", True, None)],
        [("known", "k", "multi", "i", False, None)],
        [("known", "k", "req", "b", True, None), ("jay", "j", "none", "s", False, None)],
        [("known", "k", "none", "s", False, None), ("jay", "j", "opt", "i", False, 7)],
        [("known", None, "opt", "b", False, None)],
    ]
    out = []
    for a in arg_shapes:
        for o in opt_shapes:
            level = [{"k": "arg", "name": n, "kind": k, "type": t, "nullable": False, "default": None} for n, k, t in a]
            level += [{"k": "opt", "long": ln, "short": sh, "mode": m, "type": t, "nullable": nu, "default": d}
                      for ln, sh, m, t, nu, d in o]
            out.append({"levels": [level]})
    # with command names, stacked on a base level
    for a in arg_shapes[:3]:
        level = [{"k": "arg", "name": n, "kind": k, "type": t, "nullable": False, "default": None} for n, k, t in a]
        base = [{"k": "name", "name": "word", "aliases": ["w"]},
                {"k": "opt", "long": "known", "short": "k", "mode": "opt", "type": "i", "nullable": False, "default": None}]
        out.append({"levels": [base, level]})
    return out


FORMATS = None


def formats():
    global FORMATS
    if FORMATS is None:
        FORMATS = soup_formats()
    return FORMATS


def outcome(fmt, tokens, lenient):
    from clikit.args import ArgvArgs
    from clikit.args.default_args_parser import DefaultArgsParser

    try:
        a = DefaultArgsParser().parse(ArgvArgs(["prog"] + list(tokens)), fmt, lenient)
    except Exception as e:
        return ("exc", e)
    return ("ok", a)


def classify(e):
    from clikit.api.args.exceptions import CannotParseArgsException, NoSuchOptionException

    if isinstance(e, NoSuchOptionException):
        return "NoSuchOption"
    if isinstance(e, CannotParseArgsException):
        return "CannotParse"
    if isinstance(e, ValueError):
        return "ValueError"
    return "other"


def judge(ctx, part, case, fmt, tokens):
    """The clauses that hold for every token sequence. Returns the strict outcome class."""
    ks, vs = outcome(fmt, tokens, False)
    kl, vl = outcome(fmt, tokens, True)
    cs = "return" if ks == "ok" else classify(vs)
    cl = "return" if kl == "ok" else classify(vl)
    if cs == "other":
        ctx.fail(part, "C02.exception-class", case, "return | CannotParse | NoSuchOption | ValueError", "strict", exc=vs)
    if cl not in ("return", "ValueError"):
        if cl == "other":
            ctx.fail(part, "C02.exception-class", case, "return | ValueError", "lenient", exc=vl)
        else:
            ctx.fail(part, "C02.exception-class", case, "return | ValueError", "lenient raised " + cl,
                     sig="lenient-parse-error")
    if ks == "ok" and kl == "ok":
        a = [vs.options(False), vs.options(True), vs.arguments(False), vs.arguments(True)]
        b = [vl.options(False), vl.options(True), vl.arguments(False), vl.arguments(True)]
        if not typed_equal(a, b):
            ctx.fail(part, "C02.lenient-agrees", case, a, b)
    elif ks == "ok" and kl != "ok":
        ctx.fail(part, "C02.lenient-agrees", case, "lenient returns like strict", cl, sig="lenient-raises")
    ctx.count("c02:strict-" + cs)
    return cs


def soup_nt(tokens):
    has_opt = any(t.startswith("-") and t not in ("-", "--") and not t[1:2].isdigit() for t in tokens)
    special = any(t in ("", "-", "--") or "=" in t or (t[:1] == "-" and t[1:2].isdigit()) for t in tokens)
    return has_opt and special


def check_soup(ctx, case, by_construction=False, part="soup"):
    fmt = gen_args.build_format(formats()[case["format"]])
    tokens = case["tokens"]
    ctx.case(part, case, soup_nt(tokens), distinct_by_construction=by_construction)
    judge(ctx, part, case, fmt, tokens)


def shard_soup(ctx, arg):
    fi, maxlen = arg
    fmt = gen_args.build_format(formats()[fi])
    for n in range(0, maxlen + 1):
        for tup in itertools.product(ALPHABET, repeat=n):
            tokens = list(tup)
            case = {"format": fi, "tokens": tokens}
            ctx.case("soup", case, soup_nt(tokens), distinct_by_construction=True)
            judge(ctx, "soup", case, fmt, tokens)


# ------------------------------------------------------------------------------------------ faults
FAULTS = ["drop-required", "surplus", "unknown-long", "unknown-short", "unknown-in-group", "flag-value", "empty-required-value", "strip-required-value", "ill-typed"]
EXPECT = {"drop-required": "CannotParse", "surplus": "CannotParse", "unknown-long": "NoSuchOption",
          "unknown-short": "NoSuchOption", "unknown-in-group": "NoSuchOption", "empty-required-value": "CannotParse", "flag-value": "CannotParse", "strip-required-value": "CannotParse",
          "ill-typed": "ValueError"}


def _tokens(units):
    return [t for u in units for t in u["tokens"]]


def apply_fault(case, fault, pick):
    """Returns the faulty token list or None when the fault does not apply to this line."""
    units = [dict(u, tokens=list(u["tokens"])) for u in case["units"]]
    fmt = case["fmt"]
    args = gen_args.fmt_args(fmt)
    arg_units = [i for i, u in enumerate(units) if u["kind"] == "pos" and u.get("what") == "arg"]
    n_req = len([a for a in args if a["kind"] in ("req", "multireq")])
    has_multi = any(a["kind"] in ("multi", "multireq") for a in args)
    sep = [i for i, u in enumerate(units) if u["kind"] == "sep"]
    head_end = sep[0] if sep else len(units)
    if fault == "drop-required":
        if n_req == 0 or len(arg_units) != n_req:
            return None
        del units[arg_units[pick % len(arg_units)]]
        return _tokens(units)
    if fault == "surplus":
        if has_multi or len(arg_units) != len(args):
            return None
        if units and units[-1].get("bare_optional"):
            return None
        return _tokens(units) + ["surplus"]
    if fault in ("unknown-long", "unknown-short"):
        i = pick % (head_end + 1)
        unknown = "--nope" if fault == "unknown-long" else "-Z"
        known = [o["long"] for o in gen_args.fmt_options(fmt)]
        if fault == "unknown-long" and known and pick % 3:
            # three or four dashes in front of a KNOWN name: the option '-name' / '--name' (with dashes in it) is unknown
            unknown = ("---" if pick % 3 == 1 else "----") + known[pick % len(known)]
        units.insert(i, {"kind": "opt", "tokens": [unknown]})
        return _tokens(units)
    if fault == "unknown-in-group":
        cands = [i for i, u in enumerate(units) if u.get("form") in ("flag-short", "group")]
        if not cands:
            return None
        u = units[cands[pick % len(cands)]]
        u["tokens"] = [u["tokens"][0] + "Z"]
        return _tokens(units)
    if fault == "flag-value":
        cands = [i for i, u in enumerate(units) if u.get("form") == "flag-long"]
        if not cands:
            return None
        u = units[cands[pick % len(cands)]]
        # round 9: the attached value may be empty ("--flag="), which is still a value given to a flag
        u["tokens"] = [u["tokens"][0] + ("=x" if pick < 4 else "=")]
        return _tokens(units)
    if fault == "strip-required-value":
        cands = [i for i, u in enumerate(units) if u["kind"] == "opt" and u.get("mode") in ("req", "multi")
                 and u.get("form") in ("long-eq", "long-detached", "short-detached")]
        if not cands:
            return None
        i = cands[pick % len(cands)]
        u = units.pop(i)
        if i < head_end:
            head_end -= 1
        name = u["tokens"][0].split("=")[0]
        units.insert(head_end, {"kind": "opt", "tokens": [name]})
        return _tokens(units)
    if fault == "empty-required-value":
        # the value slot is there but empty: '--name=', '--name ""', '-n ""' leave the required value out
        cands = [i for i, u in enumerate(units) if u["kind"] == "opt" and u.get("mode") in ("req", "multi")
                 and u.get("form") in ("long-eq", "long-detached", "short-detached")]
        if not cands:
            return None
        u = units[cands[pick % len(cands)]]
        if u["form"] == "long-eq":
            u["tokens"] = [u["tokens"][0].split("=")[0] + "="]
        else:
            u["tokens"] = [u["tokens"][0], ""]
        return _tokens(units)
    if fault == "ill-typed":
        # a typed argument value: replace the positional text
        typed_args = {a["name"] for a in args if a["type"] != "s"}
        opts = {o["long"]: o for o in gen_args.fmt_options(fmt)}
        cands = []
        names_given = len([u for u in units if u["kind"] == "pos" and u.get("what") == "name"])
        if names_given == len(gen_args.fmt_names(fmt)):
            # position -> argument (only when no command name is omitted, so positions are not re-aligned)
            k = 0
            for i in arg_units:
                a = args[min(k, len(args) - 1)]
                if a["name"] in typed_args:
                    cands.append(("arg", i))
                k += 1
        for i, u in enumerate(units):
            if u["kind"] == "opt" and isinstance(u.get("long"), str) and u.get("form") == "long-eq" \
                    and opts[u["long"]]["type"] != "s":
                cands.append(("opt", i))
        if not cands:
            return None
        kind, i = cands[pick % len(cands)]
        if kind == "arg":
            units[i]["tokens"] = ["notavalue"]
        else:
            units[i]["tokens"] = [units[i]["tokens"][0].split("=")[0] + "=notavalue"]
        return _tokens(units)
    raise ValueError(fault)


def check_fault(ctx, case):
    tokens = case["faulty_tokens"]
    fault = case["fault"]
    fmt = gen_args.build_format(case["fmt"], case.get("via_builder", False))
    slim = {"fmt": case["fmt"], "tokens": case["tokens"], "fault": fault, "faulty_tokens": tokens}
    ctx.case("fault", slim, True, ["c02:fault-" + fault])
    cs = judge(ctx, "fault", case, fmt, tokens)
    if cs != EXPECT[fault] and cs != "other":
        ctx.fail("fault", "C02.fault-class", case, EXPECT[fault], cs, sig=fault)


@st.composite
def fault_case(draw):
    case = draw(gen_args.case_st(structured=True))
    order = draw(st.permutations(FAULTS))
    pick = draw(st.integers(0, 7))
    for f in order:
        toks = apply_fault(case, f, pick)
        if toks is not None:
            return dict(case, fault=f, faulty_tokens=toks)
    return dict(case, fault="unknown-long", faulty_tokens=list(case["tokens"]) + ["--nope"])


def check_soup_random(ctx, case):
    check_soup(ctx, case, part="soup-long")


PARTS = {"soup": check_soup, "soup-long": check_soup_random, "fault": check_fault}


HYP = {"fault": (lambda ctx: fault_case(), check_fault)}

def run(ctx):
    quick = ctx.tier == "quick"
    maxlen = 3 if quick else 4
    ctx.parallel("shard_soup", [(i, maxlen) for i in range(len(formats()))])
    ctx.exhaustive("soup", True, "all token sequences of length <= %d over %d tokens x %d formats x strict/lenient"
                   % (maxlen, len(ALPHABET), len(formats())))
    long_soup = st.fixed_dictionaries({
        "format": st.integers(0, len(formats()) - 1),
        "tokens": st.lists(st.sampled_from(ALPHABET), min_size=maxlen + 1, max_size=6),
    })
    ctx.hyp(long_soup, lambda c: check_soup_random(ctx, c), 1500 if quick else 60000, salt=1)
    if not quick:
        ctx.fuzz("c02", 300000)
    ctx.hyp_sharded("fault", 6000 if quick else 80000, salt=2)
