"""C19 - the automatic progress indicator is well-behaved under every interleaving."""
import itertools
import re

from hypothesis import strategies as st

from vf import markup, sched, term, vclock

LEVEL = "exploration"
RULE = (
    "auto mode: main-thread programs of up to 3 ops (thorough 4) over {set_message(M1|M2|the end message itself), work(0|50ms|250ms), raise} "
    "inside 'with indicator.auto(start, end)'; the schedule is the list of choices at the scheduling points (every "
    "stream write, sleep, Event.set / is_set, Thread.start / join, thread exit) of a deterministic baton-passing "
    "scheduler under a virtual clock; (a) complete depth-first enumeration of all schedules with at most 2 (thorough 3) "
    "deviations from the default policy (preemptions of the running thread or delays of an awake thread) for every program, (b) Hypothesis-drawn schedules beyond the bound; manual mode: every sequence of "
    "up to 5 (thorough 6) ops over {start, advance, set_message, finish, tick 30ms / 100ms / 250ms} on ANSI and plain "
    "outputs. Non-trivial: a schedule with a preemption between the writes of one redraw or with a set_message while "
    "the spinner is between sleep and advance (any schedule with >= 1 preemption), a raising body. Enumerated "
    "schedules are distinct by construction."
)
ASSUMPTIONS = [
    "interleavings are explored at the granularity of stream writes, sleeps, event operations and thread start / join / "
    "exit under substitute threading / time module objects; CPython's own scheduler is not examined",
    "a step budget (3000 scheduling points) turns a would-be hang into the reported outcome 'aborted'",
    "protocol misuse in manual mode (advance / finish before start, start twice) raises the documented RuntimeError",
    "with a format that shows the elapsed time, set_message() before start() is not exercised: there is no start time yet and the library does not guard that call",
]

# messages are shown verbatim, also when they look like the placeholders of the indicator's own format
START, END = "S0", "E9 {elapsed}"
MSGS = {"M1": "M1", "M2": "M2-longer {elapsed:6s} {indicator} {message}", "ME": END}  # ME: the end message itself
VALUES = ["-", "\\", "|", "/"]
ELAPSED = r"(?:< 1 sec|1 sec|\d+ secs|1 min|\d+ mins|1 hr|\d+ hrs|1 day|\d+ days)"


class Boom(Exception):
    pass


def frame_re(messages, verbose=False):
    return re.compile(r" (?:%s) (?:%s)%s\Z" % ("|".join(re.escape(v) for v in VALUES), "|".join(re.escape(m) for m in messages),
                                              (r" \(%s\)" % ELAPSED) if verbose else ""))


def run_auto(program, schedule, verbose=False):
    from clikit.api.io import Output
    from clikit.formatter import AnsiFormatter
    from clikit.ui.components import progress_indicator as pimod

    s = sched.Sched(schedule)
    real_time, real_threading = pimod.time, pimod.threading
    pimod.time = sched.FakeTimeModule(s)
    pimod.threading = sched.FakeThreadingModule(s)
    stream = sched.SchedStream(s)
    res = {"outcome": None, "error": None}
    ind = None
    try:
        out = Output(stream, AnsiFormatter(forced=True))
        if verbose:
            # the format with the elapsed time: a frame is assembled from several pieces with a clock read in
            # between, and that clock read is a scheduling point here
            out.set_verbosity(1)
            pimod.time.point_on_time = True
        ind = pimod.ProgressIndicator(out, interval=100)
        try:
            with ind.auto(START, END):
                for op in program:
                    if op[0] == "msg":
                        ind.set_message(MSGS[op[1]])
                    elif op[0] == "work":
                        pimod.time.sleep(op[1])
                    elif op[0] == "raise":
                        raise Boom("body failed")
                    elif op[0] == "raise-ki":
                        raise KeyboardInterrupt()
            res["outcome"] = "ok"
        except (Boom, KeyboardInterrupt) as e:
            res["outcome"] = "raised"
            res["error"] = e
        except sched.Abort:
            res["outcome"] = "aborted"
        except Exception as e:
            res["outcome"] = "error"
            res["error"] = e
        th = getattr(ind, "_auto_thread", None)
        res["spinner_alive"] = bool(th is not None and th.is_alive())
    finally:
        s.finish()
        pimod.time, pimod.threading = real_time, real_threading
    res["leaked"] = s.leaked()
    res["log"] = list(stream.log)
    res["decisions"] = list(s.decisions)
    res["trace"] = list(s.trace)
    return res


def judge_auto(ctx, part, case, res):
    program = case["program"]
    raising = any(op[0] in ("raise", "raise-ki") for op in program)

    def fail(clause, expected, observed, sig=None, exc=None):
        ctx.fail(part, clause, case, expected, observed, sig=sig, exc=exc)

    if res["outcome"] == "error":
        fail("C19.joined", "the with-block ends normally", None, exc=res["error"])
        return False
    if res["outcome"] == "aborted":
        fail("C19.joined", "the spinner stops and the block ends", "step budget hit (%d scheduling points)" % len(res["trace"]),
             sig="hang")
        return False
    if res["spinner_alive"] or res["leaked"]:
        fail("C19.joined", "spinner stopped and joined", {"alive": res["spinner_alive"], "leaked": res["leaked"]}, sig="not-joined")
        return False
    if raising and res["outcome"] != "raised":
        fail("C19.exception-propagates", "the body's exception leaves the block", res["outcome"], sig="swallowed")
        return False
    if not raising and res["outcome"] != "ok":
        fail("C19.exception-propagates", "no exception", res["outcome"], sig="spurious")
        return False
    # replay the writes on a terminal: never a mixture of two frames on the current line
    messages = [START, END] + list(MSGS.values())
    rx = frame_re(messages, bool(case.get("verbose")))
    t = term.Terminal(200)
    for i, (tid, now, text) in enumerate(res["log"]):
        try:
            t.feed(text)
        except term.Unmodelled as e:
            from vf.runner import HarnessError

            raise HarnessError("terminal emulator: %s" % e)
        row = "".join(t.rows[t.r]) if t.r < len(t.rows) else ""
        row = markup.strip_sgr(row)
        if row.strip() and not rx.match(row):
            fail("C19.no-mixture", "an empty line or exactly one frame", {"write": i, "line": row,
                                                                         "writes": [(w[0], w[2]) for w in res["log"][max(0, i - 4):i + 1]]},
                 sig="mixture")
            return False
    if not raising:
        lines = [l for l in t.lines() if l.strip()]
        want = " %s %s" % (VALUES[0], END)
        if case.get("verbose"):
            ok_last = bool(lines) and re.match(re.escape(want) + r" \(%s\)\Z" % ELAPSED, lines[-1]) is not None
        else:
            ok_last = bool(lines) and lines[-1] == want
        if not ok_last:
            fail("C19.last-frame", want, lines[-3:], sig="last-frame")
            return False
    return True


def check_auto(ctx, case, part="auto-random"):
    res = run_auto([tuple(o) for o in case["program"]], case["schedule"], bool(case.get("verbose")))
    n_pre = sched.preemptions([d[1] for d in res["decisions"]], res["decisions"])
    ctx.case(part, case, n_pre >= 1 or any(o[0] in ("raise", "raise-ki") for o in case["program"]),
             ["c19:preemptions-%d" % min(n_pre, 3)])
    judge_auto(ctx, part, case, res)


PROGRAM_OPS = [("msg", "M1"), ("msg", "M2"), ("msg", "ME"), ("work", 0), ("work", 0.05), ("work", 0.25), ("raise",), ("raise-ki",)]


def programs(maxlen):
    for n in range(0, maxlen + 1):
        for p in itertools.product(PROGRAM_OPS, repeat=n):
            # a raise ends the body
            if any(op[0] in ("raise", "raise-ki") for op in p[:-1]):
                continue
            yield [list(o) for o in p]


def shard_enum(ctx, arg):
    i, n, maxlen, bound, max_runs = arg
    for j, program in enumerate(programs(maxlen)):
        if j % n != i:
            continue
        prog = [tuple(o) for o in program]
        state = {}

        def run_fn(prefix):
            res = run_auto(prog, prefix)
            state["res"] = res
            return res["decisions"]

        runs = 0
        for prefix, decisions in sched.explore(run_fn, bound, max_runs):
            runs += 1
            res = state["res"]
            full = [d[1] for d in decisions]
            case = {"program": program, "schedule": full}
            n_pre = sched.preemptions(full, decisions)
            ctx.case("auto-enum", case, n_pre >= 1 or any(o[0] in ("raise", "raise-ki") for o in program),
                     ["c19:preemptions-%d" % min(n_pre, 3)], distinct_by_construction=True)
            if not judge_auto(ctx, "auto-enum", case, res):
                break
        if runs >= max_runs:
            ctx.inconclusive.append("auto-enum: run budget %d hit for program %r" % (max_runs, program))


VERBOSE_PROGRAMS = [[["msg", "M1"]], [["work", 0.05], ["msg", "M1"]], [["msg", "M1"], ["work", 0.05]], [["msg", "M2"], ["msg", "M1"]], []]


def shard_enum_verbose(ctx, arg):
    """The verbose format (with the elapsed time), clock reads as scheduling points: a frame must come out whole
    also when its thread is preempted while it is being put together."""
    pi, bound, max_runs = arg
    program = VERBOSE_PROGRAMS[pi]
    prog = [tuple(o) for o in program]
    state = {}

    def run_fn(prefix):
        res = run_auto(prog, prefix, True)
        state["res"] = res
        return res["decisions"]

    runs = 0
    for prefix, decisions in sched.explore(run_fn, bound, max_runs):
        runs += 1
        res = state["res"]
        full = [d[1] for d in decisions]
        case = {"program": program, "schedule": full, "verbose": True}
        n_pre = sched.preemptions(full, decisions)
        ctx.case("auto-enum", case, n_pre >= 1, ["c19:verbose-preemptions-%d" % min(n_pre, 3)], distinct_by_construction=True)
        if not judge_auto(ctx, "auto-enum", case, res):
            break
    if runs >= max_runs:
        ctx.inconclusive.append("auto-enum (verbose): run budget %d hit for program %r" % (max_runs, program))


# ------------------------------------------------------------------------------------------ manual
def check_manual(ctx, case, by_construction=False):
    from clikit.api.io import Output
    from clikit.formatter import AnsiFormatter, PlainFormatter
    from clikit.ui.components import progress_indicator as pimod

    ansi = case["ansi"]
    clock = vclock.Clock()
    real_time = pimod.time
    pimod.time = vclock.FakeTime(clock)
    try:
        stream = vclock.RecordingStream(clock)
        out = Output(stream, AnsiFormatter(forced=True) if ansi else PlainFormatter())
        variant = case.get("variant")
        values = VALUES
        if variant == "verbose":
            out.set_verbosity(1)  # the indicator then chooses its format with the elapsed time
            ind = pimod.ProgressIndicator(out, interval=100)
        elif variant == "custom":
            values = ["a", "bb", "c"]
            ind = pimod.ProgressIndicator(out, "{message} | {indicator} | {elapsed:4s} | {unknown}", 100, list(values))
        else:
            ind = pimod.ProgressIndicator(out, interval=100)
        vals = "|".join(re.escape(v) for v in values)

        def frame_ok(text, message):
            msg = re.escape(str(message))
            if variant == "custom":
                rx = r"%s \| (?:%s) \| %s \| \{unknown\}\Z" % (msg, vals, ELAPSED)
            elif variant == "verbose":
                rx = (r" (?:%s) %s \(%s\)\Z" % (vals, msg, ELAPSED)) if ansi else (r" %s \(%s\)\Z" % (msg, ELAPSED))
            else:
                rx = (r" (?:%s) %s\Z" % (vals, msg)) if ansi else (r" %s\Z" % msg)
            return re.match(rx, text) is not None

        started = False
        message = None
        current = 0
        last_advance_frame = None
        nt = False
        messages = [START, END] + list(MSGS.values())
        rx = frame_re(messages)
        for i, op in enumerate(case["ops"]):
            mark = len(stream.log)
            k = op[0]
            want_error = False
            try:
                if k == "tick":
                    clock.advance(op[1])
                    continue
                if k == "start":
                    want_error = started
                    ind.start(START)
                    started, message, current = True, START, 0
                    last_advance_frame = clock.now
                elif k == "advance":
                    want_error = not started
                    ind.advance()
                elif k == "msg":
                    if variant and not started:
                        continue  # no start time yet: a format with the elapsed time cannot be drawn (see ASSUMPTIONS)
                    ind.set_message(MSGS[op[1]])
                    message = MSGS[op[1]]
                elif k == "finish":
                    want_error = not started
                    ind.finish(END)
                    started, message = False, END
            except RuntimeError as e:
                if not want_error:
                    ctx.fail("manual", "C19.manual-frame", case, "operation accepted", {"op": i}, exc=e)
                    return
                continue
            except Exception as e:
                ctx.fail("manual", "C19.manual-frame", case, "operation returns", {"op": i}, exc=e)
                return
            if want_error:
                ctx.fail("manual", "C19.manual-frame", case, "RuntimeError for protocol misuse", {"op": i, "kind": k}, sig="protocol")
                return
            writes = stream.log[mark:]
            frames = [w for w in writes if markup.strip_sgr(w[2]).replace("\r", "").replace("\x1b[2K", "").strip()]
            if not ansi and any("\x1b" in w[2] for w in writes):
                ctx.fail("manual", "C19.manual-frame", case, "no control codes on a plain output", [w[2] for w in writes], sig="escape")
                return
            for w in frames:
                text = markup.strip_sgr(w[2]).replace("\r", "").replace("\x1b[2K", "").rstrip("\n")
                if not frame_ok(text, message):
                    ctx.fail("manual", "C19.manual-frame", case, "a frame of the %s format showing %r" % (variant or "default", message),
                             text, sig="frame" if ansi else "plain-frame")
                    return
            if k == "advance":
                if frames:
                    dt_ms = round((clock.now - last_advance_frame) * 1000)
                    if dt_ms < 100:
                        ctx.fail("manual", "C19.manual-throttle", case, ">= 100 ms since the previous advance frame / start",
                                 {"op": i, "ms": dt_ms}, sig="throttle")
                        return
                    last_advance_frame = clock.now
                elif started and ansi and round((clock.now - last_advance_frame) * 1000) >= 100:
                    ctx.fail("manual", "C19.manual-throttle", case, "a frame once the interval has passed", {"op": i},
                             sig="missing-frame")
                    return
                else:
                    nt = True
        ctx.case("manual", case, nt, distinct_by_construction=by_construction)
    finally:
        pimod.time = real_time


MANUAL_OPS = [["start"], ["advance"], ["msg", "M1"], ["msg", "M2"], ["msg", "ME"], ["finish"], ["tick", 0.03], ["tick", 0.1], ["tick", 0.25]]


def shard_manual(ctx, arg):
    first, n = arg
    for rest in itertools.product(MANUAL_OPS, repeat=n - 1):
        ops = [MANUAL_OPS[first]] + list(rest)
        for ansi in (True, False):
            check_manual(ctx, {"ops": ops, "ansi": ansi}, True)
        # the same sequences one op shorter with the verbose format (elapsed time) and a custom format / values
        if len(ops) < n or ops[-1] == MANUAL_OPS[0]:
            for variant in ("verbose", "custom"):
                for ansi in (True, False):
                    check_manual(ctx, {"ops": ops[:-1] if len(ops) == n else ops, "ansi": ansi, "variant": variant}, True)


PARTS = {"auto-enum": lambda ctx, c: check_auto(ctx, c, part="auto-enum"), "auto-random": check_auto, "manual": check_manual}


def _random_case(ctx):
    prog = st.lists(st.sampled_from(PROGRAM_OPS[:5]), max_size=4).flatmap(
        lambda p: st.sampled_from([None, None, "raise", "raise-ki"]).map(lambda r: [list(o) for o in p] + ([[r]] if r else [])))
    return st.fixed_dictionaries({"program": prog, "schedule": st.lists(st.integers(0, 3), max_size=120)})


HYP = {"auto-random": (_random_case, check_auto)}


def run(ctx):
    quick = ctx.tier == "quick"
    maxlen, bound, max_runs = (3, 2, 20000) if quick else (4, 3, 200000)
    ctx.parallel("shard_enum", [(i, 16, maxlen, bound, max_runs) for i in range(16)])
    ctx.parallel("shard_enum_verbose", [(i, 2 if quick else 3, 20000 if quick else 100000) for i in range(len(VERBOSE_PROGRAMS))])
    ctx.exhaustive("auto-enum", not ctx.inconclusive,
                   "all schedules with <= %d preemptions for every program of <= %d ops" % (bound, maxlen))
    ctx.hyp_sharded("auto-random", 3000 if quick else 100000, salt=1)
    n = 5 if quick else 6
    ctx.parallel("shard_manual", [(f, n) for f in range(len(MANUAL_OPS))])
    ctx.exhaustive("manual", True, "all %d^%d op sequences x ANSI/plain; all of length %d also with the verbose format and with a custom format and custom indicator values" % (len(MANUAL_OPS), n, n - 1))
