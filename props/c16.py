"""C16 - a progress bar always shows a truthful, well-formed frame and ends at 100%."""
import itertools
import os
import re

from hypothesis import strategies as st

from vf import markup, term, vclock

LEVEL = "exploration"
RULE = (
    "explicit enumeration: every sequence of exactly N ops (quick 4, thorough 6; prefixes judged step by step) over "
    "{start, start(max'), advance(1), advance(3), set_progress(max), set_progress(-2), display, clear, finish, "
    "tick 50ms, tick 200ms} for 9 configurations (max 0/3/10, ANSI/plain/ANSI section/plain section/quiet, min interval 0/0.1); the "
    "complete set of (max, step) pairs 1 <= max <= 200, 0 <= step <= max through set_progress; Hypothesis sequences "
    "up to 60 ops over max {0,1,3,10,50,200}, bar width 1..40, min interval {0,0.1,0.5}, default formats at every "
    "verbosity and 3 custom formats (one with a message placeholder, one two-line), messages of varying length "
    "with and without style tags, clock advances {0,10ms,50ms,200ms,2s}; all under a virtual clock, every stream "
    "write recorded with its virtual time and replayed on a terminal emulator. random cases also configure the bar / empty / progress characters; after every operation the bar's own report of progress, maximum and fraction is compared with the model. Non-trivial: a throttled advance, a "
    "frame shorter than its predecessor, or an overshoot / negative set_progress. Enumerated cases are distinct by "
    "construction, random ones by hash."
)
ASSUMPTIONS = [
    "for an unknown maximum (max 0) step 0 counts as the maximum (the code draws there; 'reaching the maximum always draws')",
    "a frame is identified as a stream write with visible non-space text; frames are parsed with a regex generated "
    "from the format's own placeholders, the with-max and the no-max variant of a default format are both accepted",
    "plain mode: finish() when already at the maximum is the documented no-op",
    "frames are kept narrower than the terminal (COLUMNS=120)",
]

B, EB = markup.LT + "info" + markup.GT, markup.LT + "/info" + markup.GT
MESSAGES = {"m0": "init", "m1": "m", "m2": "a longer message", "m3": B + "looooong" + EB, "m4": B + "s" + EB,
            "m5": "x" + B + "tagged" + EB + "y"}
FORMATS = {
    "F1": "%current%/%max% [%bar%] %percent%% %message%",
    "F2": "[%bar%] %current%",
    "F3": "%current%/%max%\n[%bar%]",
}
ELAPSED = r" *(?:< 1 sec|1 sec|\d+ secs|1 min|\d+ mins|1 hr|\d+ hrs|1 day|\d+ days|None) *"
PH = re.compile(r"(?i)%([a-z\-_]+)(?::([^%]+))?%")


def visible(text):
    for t in (B, EB):
        text = text.replace(t, "")
    return text


def frame_regex(fmt):
    out = []
    pos = 0
    for m in PH.finditer(fmt):
        out.append(re.escape(fmt[pos:m.start()]).replace("\\\n", " *\n"))
        name = m.group(1)
        if name == "current":
            out.append(r"(?P<current> *\d+)")
        elif name == "max":
            out.append(r"(?P<max>\d+)")
        elif name == "bar":
            out.append(r"(?P<bar>[-=>#.]*)")
        elif name == "percent":
            out.append(r"(?P<percent> *\d+)")
        elif name == "elapsed":
            out.append(ELAPSED)
        elif name == "estimated":
            out.append(r" *\d+ *")
        elif name == "message":
            out.append("(?P<message>%s)" % "|".join(re.escape(visible(v)) for v in MESSAGES.values()))
        else:
            out.append(re.escape(m.group(0)))
        pos = m.end()
    out.append(re.escape(fmt[pos:]))
    return re.compile("".join(out) + r" *\Z", re.S)


def candidate_formats(cfg):
    from clikit.ui.components.progress_bar import ProgressBar

    if cfg.get("format"):
        return [FORMATS[cfg["format"]]]
    name = {0: "normal", 1: "verbose", 2: "very_verbose", 4: "debug"}[cfg.get("verbosity", 0)]
    return [ProgressBar.formats[name], ProgressBar.formats[name + "_nomax"]]


class Run(object):
    def __init__(self, cfg):
        from clikit.api.io import Output
        from clikit.formatter import AnsiFormatter, PlainFormatter
        from clikit.ui.components import progress_bar as pbmod

        os.environ["COLUMNS"] = str(cfg.get("columns", 120))
        self.cfg = cfg
        self.clock = vclock.Clock()
        pbmod.time = vclock.FakeTime(self.clock)
        self.stream = vclock.RecordingStream(self.clock)
        kind = cfg["out"]
        fmt = PlainFormatter() if kind in ("plain", "plain-section") else AnsiFormatter(forced=True)
        out = Output(self.stream, fmt)
        self.header = None
        if kind == "section" and not cfg.get("quiet"):
            # something stands above the section: a redraw that moves the cursor too far up would erase it
            self.header = "HEADER"
            out.write_line(self.header)
        if kind in ("section", "plain-section"):
            out = out.section()
        out.set_verbosity(cfg.get("verbosity", 0))
        out.set_quiet(bool(cfg.get("quiet")))
        self.out = out
        if cfg.get("min_via_setter") and cfg["min"] > 0:
            # the minimum interval given after construction instead of to the constructor
            self.pb = pbmod.ProgressBar(out, cfg["max"], 0)
            self.pb.min_seconds_between_redraws(cfg["min"])
        else:
            self.pb = pbmod.ProgressBar(out, cfg["max"], cfg["min"])
        if cfg.get("redraw_freq"):
            self.pb.set_redraw_frequency(cfg["redraw_freq"])
        if cfg.get("max_between") is not None:
            self.pb.max_seconds_between_redraws(cfg["max_between"])
        self.pb.set_bar_width(cfg["width"])
        if cfg.get("chars"):
            self.pb.set_bar_character(cfg["chars"][0])
            self.pb.set_empty_bar_character(cfg["chars"][1])
            self.pb.set_progress_character(cfg["chars"][2])
        if cfg.get("format"):
            self.pb.set_format(FORMATS[cfg["format"]])
            if "message" in FORMATS[cfg["format"]]:
                self.pb.set_message(MESSAGES["m0"])
        self.regexes = [frame_regex(f) for f in candidate_formats(cfg)]
        # model
        self.step = 0
        self.max = max(0, cfg["max"])
        self.last_frame_time = None
        self.latest = None  # visible text of the latest frame ('' after clear)
        self.finished = False
        self.nt = False
        self.classes = set()

    def model_set(self, n):
        if self.max and n > self.max:
            self.max = n
            self.nt = True
            self.classes.add("c16:overshoot")
        elif n < 0:
            n = 0
            self.nt = True
            self.classes.add("c16:negative")
        self.step = n


def run_case(ctx, part, case, by_construction=False):
    cfg = case["cfg"]
    run = Run(cfg)
    pb = run.pb
    plain = cfg["out"] in ("plain", "plain-section")  # a section of an output without ANSI support is a plain output
    quiet = bool(cfg.get("quiet"))

    def fail(clause, expected, observed, sig=None, exc=None):
        ctx.fail(part, clause, case, expected, observed, sig=sig, exc=exc)

    for i, op in enumerate(case["ops"]):
        k = op[0]
        mark = len(run.stream.log)
        run.stream.tag = i
        must_draw = False
        throttled_kind = False
        try:
            if k == "tick":
                run.clock.advance(op[1])
                continue
            if k == "msg":
                pb.set_message(MESSAGES[op[1]])
                continue
            if k == "start":
                if len(op) > 1 and op[1] is not None:
                    pb.start(op[1])
                    run.max = max(0, op[1])
                else:
                    pb.start()
                run.step = 0
                must_draw = True
            elif k == "advance":
                pb.advance(op[1])
                run.model_set(run.step + op[1])
                throttled_kind = True
            elif k == "set":
                pb.set_progress(op[1])
                run.model_set(op[1])
                throttled_kind = True
            elif k == "display":
                pb.display()
                must_draw = True
            elif k == "clear":
                pb.clear()
            elif k == "finish":
                at_max_before = (run.step == (run.max or run.step))
                pb.finish()
                if not run.max:
                    run.max = run.step
                run.step = run.max
                run.finished = True
                must_draw = not (plain and at_max_before)
        except Exception as e:
            fail("C16.frame", "operation returns", {"op": i}, exc=e)
            return
        if throttled_kind and run.step == run.max:
            must_draw = True
        # what the bar reports about itself agrees with what it draws
        # (the fraction only for bars created with a known maximum: a bar without one keeps its fraction until it
        # draws again, which finish() on a plain output does not do)
        known = cfg["max"] > 0
        got_state = [pb.get_progress(), pb.get_max_steps(), round(pb.get_progress_percent(), 9) if known else None]
        want_state = [run.step, run.max, (round(run.step / run.max, 9) if run.max else 0.0) if known else None]
        if got_state != want_state:
            fail("C16.step", {"progress, max, fraction": want_state}, {"op": i, "reported": got_state}, sig="getters")
            return
        writes = run.stream.log[mark:]
        data = "".join(w[2] for w in writes)
        if quiet:
            if run.stream.log:
                fail("C16.quiet", "nothing written", run.stream.fetch(), sig="quiet")
                return
            continue
        if plain and "\x1b" in data:
            fail("C16.plain", "no control codes", data, sig="escape")
            return
        frames = [w for w in writes if markup.strip_sgr(w[2]).replace("\r", "").strip(" \n") != "" and "\x1b[" not in
                  markup.strip_sgr(w[2])]
        if k == "clear":
            if not plain:
                run.latest = ""
        if must_draw and not frames:
            fail("C16.always", "a frame is drawn", {"op": i, "writes": [w[2] for w in writes]},
                 sig="finish" if k == "finish" else ("at-max" if throttled_kind else k))
            return
        for w in frames:
            text = markup.strip_sgr(w[2]).rstrip("\n")
            m = None
            for rx in run.regexes:
                m = rx.match(text)
                if m:
                    break
            if not m:
                fail("C16.frame", "frame matching the format", {"op": i, "frame": text}, sig="grammar")
                return
            g = m.groupdict()
            if g.get("bar") is not None and len(g["bar"]) != cfg["width"]:
                fail("C16.bar-width", cfg["width"], {"op": i, "frame": text}, sig="bar-width")
                return
            if g.get("bar") is not None and cfg.get("chars") and not set(g["bar"]) <= set("".join(cfg["chars"])):
                fail("C16.frame", "bar drawn with the configured characters %r" % (cfg["chars"],),
                     {"op": i, "frame": text}, sig="bar-characters")
                return
            if g.get("current") is not None:
                cur = int(g["current"])
                if cur != run.step or cur < 0 or (run.max and cur > run.max):
                    fail("C16.step", run.step, {"op": i, "frame": text}, sig="current")
                    return
            if g.get("max") is not None and int(g["max"]) != run.max:
                fail("C16.step", run.max, {"op": i, "frame": text}, sig="max")
                return
            if g.get("percent") is not None:
                want = (100 * run.step // run.max) if run.max else 0
                if int(g["percent"]) != want:
                    fail("C16.step", want, {"op": i, "frame": text}, sig="percent")
                    return
            if throttled_kind and run.step != run.max and run.last_frame_time is not None:
                dt = w[0] - run.last_frame_time
                if dt < cfg["min"] - 1e-9:
                    fail("C16.throttle", ">= %s s since the previous frame" % cfg["min"], {"op": i, "dt": dt}, sig="throttle")
                    return
            vis = text.rstrip(" ")
            if run.latest is not None and len(vis) < len(run.latest):
                run.nt = True
                run.classes.add("c16:shorter-frame")
            run.latest = vis
            run.last_frame_time = w[0]
        if throttled_kind and not frames and run.last_frame_time is not None \
                and run.clock.now - run.last_frame_time < cfg["min"]:
            run.nt = True
            run.classes.add("c16:throttled")
        if k == "finish" and frames:
            text = markup.strip_sgr(frames[-1][2])
            for rx in run.regexes:
                m = rx.match(text.rstrip("\n"))
                if m:
                    g = m.groupdict()
                    bad = (g.get("current") is not None and int(g["current"]) != run.max) or \
                          (g.get("percent") is not None and run.max and int(g["percent"]) != 100)
                    if bad:
                        fail("C16.final", "max/max 100%", {"op": i, "frame": text}, sig="final")
                        return
                    break
        # the screen shows exactly the latest frame
        if not plain:
            t = term.Terminal(cfg.get("columns", 120))
            try:
                t.feed(run.stream.fetch())
            except term.Unmodelled as e:
                from vf.runner import HarnessError

                raise HarnessError("terminal emulator: %s" % e)
            screen = t.lines()
            want = [] if not run.latest else [c.rstrip(" ") for l in run.latest.split("\n")
                                              for c in (term.chunk(l.rstrip(" "), cfg.get("columns", 120)) or [""])]
            while want and want[-1] == "":
                want.pop()
            if run.header:
                want = [run.header] + want
            if screen != want:
                fail("C16.screen", want, {"op": i, "screen": screen}, sig="residue" if run.nt else "screen")
                return
        else:
            lines = run.stream.fetch().split("\n")
            for ln in lines:
                if ln.strip() == "":
                    continue
                if not any(rx.match(ln) for rx in run.regexes):
                    fail("C16.plain", "every frame on its own line", {"op": i, "line": ln}, sig="own-line")
                    return
    ctx.case(part, case, run.nt, sorted(run.classes), distinct_by_construction=by_construction)


def check_pair(ctx, case, by_construction=False):
    """(max, step) through set_progress on an ANSI bar: the percentage is the exact integer floor."""
    mx, step = case["max"], case["step"]
    cfg = {"max": mx, "width": 10, "min": 0, "out": "ansi", "format": None}
    run = Run(cfg)
    ctx.case("pairs", case, True, distinct_by_construction=by_construction)
    try:
        run.pb.start()
        run.pb.set_progress(step)
        mark = len(run.stream.log)
        run.pb.display()
    except Exception as e:
        ctx.fail("pairs", "C16.frame", case, "draws", None, exc=e)
        return
    text = markup.strip_sgr(run.stream.log[-1][2])
    m = run.regexes[0].match(text)
    if not m:
        ctx.fail("pairs", "C16.frame", case, "frame", text, sig="grammar")
        return
    want = 100 * step // mx
    if int(m.group("percent")) != want or int(m.group("current")) != step or int(m.group("max")) != mx:
        ctx.fail("pairs", "C16.step", case, "%d/%d %d%%" % (step, mx, want), text, sig="percent")
    if len(m.group("bar")) != 10:
        ctx.fail("pairs", "C16.bar-width", case, 10, text, sig="bar-width")


PARTS = {
    "sequences": lambda ctx, c: run_case(ctx, "sequences", c),
    "random": lambda ctx, c: run_case(ctx, "random", c),
    "pairs": check_pair,
}

ENUM_OPS = [["start"], ["start", 5], ["advance", 1], ["advance", 3], ["set", "MAX"], ["set", -2], ["display"], ["clear"],
            ["finish"], ["tick", 0.05], ["tick", 0.2]]
ENUM_CFGS = [
    {"max": 10, "width": 8, "min": 0.1, "out": "ansi", "format": None},
    {"max": 3, "width": 5, "min": 0, "out": "ansi", "format": "F1"},
    {"max": 0, "width": 6, "min": 0.1, "out": "ansi", "format": None},
    {"max": 10, "width": 8, "min": 0.1, "out": "plain", "format": None},
    {"max": 0, "width": 4, "min": 0, "out": "plain", "format": "F2"},
    {"max": 3, "width": 8, "min": 0.1, "out": "section", "format": None},
    {"max": 10, "width": 6, "min": 0, "out": "section", "format": None, "columns": 20},
    {"max": 300, "width": 5, "min": 0.1, "out": "plain", "format": None},
    {"max": 3, "width": 6, "min": 0, "out": "plain-section", "format": None},
    {"max": 10, "width": 8, "min": 0, "out": "ansi", "format": None, "quiet": True},
    {"max": 3, "width": 3, "min": 0.1, "out": "ansi", "format": "F3"},
]


def shard_enum(ctx, arg):
    ci, first, n = arg
    cfg = ENUM_CFGS[ci]
    for rest in itertools.product(range(len(ENUM_OPS)), repeat=n - 1):
        ops = []
        for oi in (first,) + rest:
            op = list(ENUM_OPS[oi])
            if op == ["set", "MAX"]:
                # (one below a large maximum, so that the following advance reaches it with a freshly computed int)
                op = ["set", (cfg["max"] - 1 if cfg["max"] > 256 else cfg["max"]) or 4]
            ops.append(op)
        run_case(ctx, "sequences", {"cfg": cfg, "ops": ops}, by_construction=True)


def shard_pairs(ctx, arg):
    lo, hi = arg
    for mx in range(lo, hi):
        for step in range(0, mx + 1):
            check_pair(ctx, {"max": mx, "step": step}, True)


def fit_columns(cfg):
    """For a quarter of the default-format bars with maximum 10 the terminal is made exactly as wide as the frame
    (14 + bar width columns): a frame that fills the row exactly is the boundary of the row accounting."""
    if cfg["max"] == 10 and not cfg["format"] and cfg["verbosity"] == 0 and cfg["width"] % 4 == 0 \
            and cfg["out"] == "section":  # (only a section accounts for frames that fill or exceed a row)
        cfg = dict(cfg, columns=14 + cfg["width"])
    return cfg


def random_case():
    cfg = st.fixed_dictionaries({
        "max": st.sampled_from([0, 1, 3, 10, 50, 200, 300, 1000]),
        "width": st.integers(1, 40),
        "min": st.sampled_from([0, 0.1, 0.5]),
        "out": st.sampled_from(["ansi", "ansi", "plain", "section", "plain-section"]),
        "format": st.sampled_from([None, None, "F1", "F2"]),
        "quiet": st.integers(0, 9).map(lambda x: x == 0),
        "verbosity": st.sampled_from([0, 0, 1, 2, 4]),
        "chars": st.sampled_from([None, None, ["#", ".", ">"], ["#", "-", ""]]),
        "min_via_setter": st.booleans(),
        "redraw_freq": st.sampled_from([None, None, 1, 3]),
        "max_between": st.sampled_from([None, None, 0.05, 5]),
    }).map(fit_columns)
    op = st.one_of(
        st.just(["start"]), st.tuples(st.just("start"), st.sampled_from([1, 5, 20])).map(list),
        st.tuples(st.just("advance"), st.sampled_from([1, 1, 1, 2, 7, -1])).map(list),
        st.tuples(st.just("advance"), st.sampled_from([1, 1, 1, 2, 7, -1])).map(list),
        st.tuples(st.just("set"), st.sampled_from([0, 1, 2, 3, 10, 29, 50, 200, 250, 299, 999, -3])).map(list),
        st.just(["display"]), st.just(["clear"]), st.just(["finish"]),
        st.tuples(st.just("msg"), st.sampled_from(sorted(MESSAGES))).map(list),
        st.tuples(st.just("tick"), st.sampled_from([0, 0.01, 0.05, 0.2, 2])).map(list),
        st.tuples(st.just("tick"), st.sampled_from([0, 0.01, 0.05, 0.2, 2])).map(list),
    )
    return st.fixed_dictionaries({"cfg": cfg, "ops": st.lists(op, min_size=1, max_size=60)})


HYP = {"random": (lambda ctx: random_case(), lambda ctx, c: run_case(ctx, "random", c))}

def run(ctx):
    quick = ctx.tier == "quick"
    n = 4 if quick else 6
    ctx.parallel("shard_enum", [(ci, f, n) for ci in range(len(ENUM_CFGS)) for f in range(len(ENUM_OPS))])
    ctx.exhaustive("sequences", True, "%d configurations x all %d^%d op sequences" % (len(ENUM_CFGS), len(ENUM_OPS), n))
    ctx.parallel("shard_pairs", [(1 + 10 * i, min(201, 11 + 10 * i)) for i in range(20)])
    ctx.exhaustive("pairs", True, "all (max, step) with 1 <= max <= 200, 0 <= step <= max")
    ctx.hyp_sharded("random", 6000 if quick else 80000, salt=1)
