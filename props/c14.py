"""C14 - tables render as a rectangle within the terminal and keep every cell's text."""
import copy
import itertools
import re

from hypothesis import strategies as st

from vf import markup

LEVEL = "exploration"
RULE = (
    "Hypothesis tables: 1-6 columns x 1-6 rows, cells drawn from a size-biased mix (empty, one short word, one word "
    "longer than any column, many short words up to 1500 characters, bold-tagged words, hyphenated and non-ASCII "
    "words), header present or not, styles ascii / solid / borderless / compact as predefined and customised variants "
    "(visible padding character, visible vertical separators), per-column alignments, terminal width 20..200, "
    "indentation 0..8, ANSI / plain; only tables whose width leaves >= 1 character per column beside borders and cell "
    "padding are generated (computed constructively). wrapper: bounded-exhaustive CellWrapper.fit over 2-3 columns x "
    "natural lengths in {1,3,8,15,30,60} x every available width from the column count to 60. the table is filled through add_rows / set_rows / add_row / set_row (all four must give the same rendering). Non-trivial: a cell "
    "wraps, a word is longer than its column, or >= 2 long columns. Distinct by hash (tables) / by construction (wrapper)."
)
ASSUMPTIONS = [
    "cell text never contains the style's padding or separator characters, so column slices can be read back",
    "lines are compared after right-padding when the style has no right border (the renderer trims trailing spaces)",
    "column content is read per column over all body lines (rows are not separated by borders): the concatenation of "
    "the column's slices, spaces / padding removed, must equal the concatenation of the column's cells, spaces removed",
    "a style-tagged word that has to be cut because its column is narrower than the word is bucketed separately "
    "(C14.content:tag-narrower-than-column, known finding: cells are wrapped by a format-unaware textwrap)",
]

B, EB = markup.LT + "b" + markup.GT, markup.LT + "/b" + markup.GT
WORDS = ["a", "to", "the", "word", "table", "column", "wrapping", "é中文", "x-y-z", "1234567", "Supercalifragilistic",
         "Pneumonoultramicroscopicsilicovolcanoconiosis" * 2]


def visible(cell):
    return cell.replace(B, "").replace(EB, "")


def squeeze(text, extra=""):
    return re.sub(r"[\s%s]+" % re.escape(extra) if extra else r"\s+", "", text)


def make_style(desc):
    from clikit.ui.style import Alignment, TableStyle

    st_ = getattr(TableStyle, desc["base"])()
    if desc.get("custom"):
        st_.padding_char = "."
        st_.border_style.line_vc_char = "!"
        if desc["base"] in ("ascii", "solid"):
            st_.border_style.line_vl_char = "["
            st_.border_style.line_vr_char = "]"
    for i, a in enumerate(desc.get("alignments", [])):
        st_.set_column_alignment(i, {"l": Alignment.LEFT, "r": Alignment.RIGHT, "c": Alignment.CENTER}[a])
    return st_


def geometry(style, ncols):
    bs = style.border_style
    excess = max(len(style.header_cell_format.format("")), len(style.cell_format.format("")))
    border = len(bs.line_vl_char) + (ncols - 1) * len(bs.line_vc_char) + len(bs.line_vr_char)
    return excess, border


def check_table(ctx, case):
    from clikit.formatter import AnsiFormatter, PlainFormatter
    from clikit.io import BufferedIO
    from clikit.ui.components import Table
    from clikit.ui.rectangle import Rectangle

    rows, header, width, indent = case["rows"], case.get("header"), case["width"], case["indent"]
    ncols = len(rows[0])
    style = make_style(case["style"])
    excess, border = geometry(style, ncols)
    available = width - indent - border - ncols * excess
    if available < ncols:
        raise AssertionError("generator violated the width precondition: %r" % (case,))
    allrows = ([header] if header else []) + rows
    natural = [max(len(visible(r[c])) for r in allrows) for c in range(ncols)]
    wraps = sum(natural) > available
    long_cols = len([n for n in natural if n > available / ncols])
    longword = any(len(w) > max(1, available // ncols) for r in allrows for c in r for w in visible(c).split())
    ctx.case("table", case, wraps or longword or long_cols >= 2,
             ["c14:" + case["style"]["base"] + ("-custom" if case["style"].get("custom") else "")]
             + (["c14:wraps"] if wraps else []) + (["c14:long-columns-%d" % min(long_cols, 3)] if wraps else []))
    snapshot = copy.deepcopy([header, rows])

    def build(how="add_rows"):
        """The same table through the different row operations: they all lead to the same table."""
        t = Table(make_style(case["style"]))
        if header:
            t.set_header_row(header)
        if how == "set_rows":
            t.add_row(["old"] * ncols)
            t.set_rows(rows)
        elif how == "add_row":
            for r in rows:
                t.add_row(r)
        elif how == "set_row":
            t.add_rows([["placeholder %d" % i] * ncols for i in range(len(rows))])
            for i in reversed(range(len(rows))):
                t.set_row(i, rows[i])
        else:
            t.add_rows(rows)
        return t

    def render(t=None, w=width):
        io = BufferedIO("", AnsiFormatter(forced=True) if case.get("ansi") else PlainFormatter())
        io.set_terminal_dimensions(Rectangle(w, 20))
        (t or build()).render(io, indent)
        return io.fetch_output()

    table = build(case.get("build", "add_rows"))

    def fail(clause, expected, observed, sig=None, exc=None):
        ctx.fail("table", clause, case, expected, observed, sig=sig, exc=exc)

    try:
        out = render(table)
    except Exception as e:
        fail("C14.renders", "render returns", {"available": available, "natural": natural}, exc=e)
        return
    if [header, rows] != snapshot:
        fail("C14.unmodified", snapshot, [header, rows])
        return
    # rendering does not modify the table: the SAME table object renders the same page again, also after it was
    # rendered at another width in between, and a table built afresh from the same rows renders that page too
    other = width + 9
    try:
        again = render(table)
        wide = render(table, other)
        back = render(table)
        fresh, fresh_wide = render(), render(None, other)
    except Exception as e:
        fail("C14.twice", "later renders return", None, exc=e)
        return
    if again != out:
        fail("C14.twice", out, again, sig="same-object")
    if back != out or wide != fresh_wide:
        fail("C14.twice", [out, fresh_wide], [back, wide], sig="after-other-width")
    if fresh != out:
        fail("C14.twice", out, fresh, sig="fresh-table")
    text = markup.strip_sgr(out)
    if not case.get("ansi") and "\x1b" in out:
        fail("C14.renders", "no escape byte on a plain output", out, sig="escape")
    lines = text.split("\n")
    if lines and lines[-1] == "":
        lines.pop()
    if not lines:
        fail("C14.rectangle", "a table", text, sig="empty")
        return
    # a style tag that was cut by the format-unaware wrapper shows up as literal angle brackets (cells have none)
    tagged_cut = markup.LT in text or markup.GT in text
    bs = style.border_style
    has_right = bool(bs.line_vr_char)
    widths = [len(l) for l in lines]
    if max(widths) > width:
        fail("C14.rectangle", "<= %d columns" % width, {"widths": widths, "text": text}, sig="too-wide")
        return
    if has_right and len(set(widths)) != 1:
        fail("C14.rectangle", "all lines equally wide", {"widths": widths, "text": text},
             sig="ragged" if not tagged_cut else "ragged-tag-narrower-than-column")
        return
    total = max(max(widths), indent)
    padded = [l.ljust(total) for l in lines]
    if any(not l.startswith(" " * indent) for l in padded):
        fail("C14.rectangle", "indentation %d" % indent, text, sig="indentation")
        return
    # column boundaries
    sep_chars = set(c for c in (bs.line_vl_char, bs.line_vc_char, bs.line_vr_char) if c and c != " ")
    body = [l[indent:] for l in padded]
    content_lines = body
    is_border = lambda l: l.strip() != "" and set(l.strip()) <= set("+-─┌┐└┘┼├┤┬┴=~x ")  # noqa: E731
    pad_char = style.padding_char
    col_text = None
    if sep_chars:
        # bordered or customised: separators must stand at the same positions in every content line
        positions = None
        col_text = [[] for _ in range(ncols)]
        seen_header = False
        for l in body:
            if is_border(l) and not any(ch in l for ch in sep_chars if ch not in "x"):
                continue
            pos = [i for i, ch in enumerate(l) if ch in sep_chars]
            if positions is None:
                positions = pos
            elif pos != positions:
                fail("C14.columns", positions, {"line": l, "positions": pos, "text": text},
                     sig="misaligned" if not tagged_cut else "misaligned-tag-narrower-than-column")
                return
            cuts = ([-1] if not bs.line_vl_char else []) + pos + ([len(l)] if not bs.line_vr_char else [])
            if len(cuts) != ncols + 1:
                fail("C14.columns", "%d columns" % ncols, {"line": l, "cuts": cuts}, sig="column-count")
                return
            for c in range(ncols):
                col_text[c].append(l[cuts[c] + 1:cuts[c + 1]])
    # content
    if col_text is not None:
        for c in range(ncols):
            got = squeeze("".join(col_text[c]), pad_char)
            want = squeeze("".join(visible(r[c]) for r in allrows), pad_char)
            if got != want:
                fail("C14.content", {"column": c, "text": want}, {"text": got, "render": text},
                     sig="column" if not tagged_cut else "tag-narrower-than-column")
                return
    else:
        got = squeeze("".join(l for l in body if not is_border(l) or "=" not in l), pad_char)
        # without visible separators only the multiset of characters per line group can be read back: compare the
        # row-major text when nothing wraps, the sorted characters otherwise
        want_rows = squeeze("".join(visible(c) for r in allrows for c in r), pad_char)
        if not wraps:
            if got != want_rows:
                fail("C14.content", want_rows, {"text": got, "render": text}, sig="rows")
        elif sorted(got) != sorted(want_rows):
            fail("C14.content", "the same characters as the cells", {"text": got, "render": text},
                 sig="characters" if not tagged_cut else "tag-narrower-than-column")


# ---------------------------------------------------------------------------------------- wrapper
def check_wrapper(ctx, case, by_construction=False):
    from clikit.formatter import PlainFormatter
    from clikit.ui.components.cell_wrapper import CellWrapper

    lengths, available = case["lengths"], case["available"]
    n = len(lengths)
    ctx.case("wrapper", case, sum(lengths) > available, distinct_by_construction=by_construction)
    w = CellWrapper()
    cells = ["w" * l for l in lengths]
    for c in cells:
        w.add_cell(c)
    try:
        w.fit(available, n, PlainFormatter())
    except Exception as e:
        ctx.fail("wrapper", "C14.renders", case, "fit returns", None, exc=e)
        return
    cl = w.column_lengths
    if sum(cl) > max(available, 0) and sum(lengths) > available:
        ctx.fail("wrapper", "C14.rectangle", case, "columns fit into %d" % available, cl, sig="wrapper-too-wide")
        return
    if any(x < 1 for x, l in zip(cl, lengths) if l > 0):
        ctx.fail("wrapper", "C14.columns", case, "every column >= 1", cl, sig="wrapper-empty-column")
        return
    for c in range(n):
        got = w.wrapped_rows[0][c].replace("\n", "")
        if got != cells[c]:
            ctx.fail("wrapper", "C14.content", case, cells[c], got, sig="wrapper-content")
            return
        if any(len(l) > cl[c] for l in w.wrapped_rows[0][c].split("\n")):
            ctx.fail("wrapper", "C14.columns", case, "lines within the column length %d" % cl[c], w.wrapped_rows[0][c],
                     sig="wrapper-overflow")
            return


PARTS = {"table": check_table, "wrapper": check_wrapper}


def cell_st():
    word = st.sampled_from(WORDS)
    tagged = word.map(lambda w: B + w + EB)
    return st.one_of(
        st.just(""),
        word, word,
        st.lists(word, min_size=2, max_size=6).map(" ".join),
        st.lists(st.one_of(word, word, tagged), min_size=1, max_size=5).map(" ".join),
        st.lists(st.sampled_from(WORDS[:8]), min_size=20, max_size=220).map(" ".join),
    )


@st.composite
def table_case(draw):
    ncols = draw(st.integers(1, 6))
    nrows = draw(st.integers(1, 6))
    rows = [[draw(cell_st()) for _ in range(ncols)] for _ in range(nrows)]
    header = [draw(st.sampled_from(["H", "Head", "A longer header", B + "Bold" + EB])) for _ in range(ncols)] \
        if draw(st.booleans()) else None
    base = draw(st.sampled_from(["ascii", "solid", "borderless", "compact"]))
    style = {"base": base, "custom": draw(st.booleans()),
             "alignments": draw(st.lists(st.sampled_from("lrc"), max_size=ncols))}
    indent = draw(st.integers(0, 8))
    excess, border = geometry(make_style(style), ncols)
    need = indent + border + ncols * excess + ncols
    width = draw(st.one_of(st.integers(max(20, need), max(20, need) + 12), st.integers(max(20, need), 200)))
    if style["custom"]:
        # keep cell text free of the customised padding / separator characters
        rows = [[c.replace(".", "").replace("!", "") for c in r] for r in rows]
    case = {"rows": rows, "header": header, "style": style, "width": width, "indent": indent, "ansi": draw(st.booleans())}
    how = draw(st.sampled_from(["add_rows", "add_rows", "set_rows", "add_row", "set_row"]))
    if how != "add_rows":
        case["build"] = how
    return case


def shard_wrapper(ctx, arg):
    n, first = arg
    pool = [1, 3, 8, 15, 30, 60]
    for rest in itertools.product(pool, repeat=n - 1):
        lengths = [first] + list(rest)
        for available in range(n, 61):
            check_wrapper(ctx, {"lengths": lengths, "available": available}, True)


HYP = {"table": (lambda ctx: table_case(), check_table)}

def run(ctx):
    quick = ctx.tier == "quick"
    ctx.hyp_sharded("table", 4000 if quick else 80000, salt=1)
    jobs = [(n, f) for n in ((2, 3) if quick else (2, 3, 4)) for f in [1, 3, 8, 15, 30, 60]]
    ctx.parallel("shard_wrapper", jobs)
    ctx.exhaustive("wrapper", True, "2-3 (thorough 4) columns x natural lengths {1,3,8,15,30,60}^n x available widths n..60")
