"""C11 - decoration changes only the look: same text, right codes, none when plain."""
import inspect
import itertools

from hypothesis import strategies as st

from vf import markup
from vf.markup import ESC, GT, LT

LEVEL = "exploration"
RULE = (
    "messages: Hypothesis markup trees (registered tags, inline fg/bg/options specs, closed by name or by the short "
    "closing tag, unknown tags, escaped registered tags and angle brackets as text, newlines, non-ASCII), each formatted by the ANSI and the "
    "plain formatter and written through decorated / undecorated outputs; styles: all 18 x 18 x 2^7 = 41472 styles "
    "supplied in the style set, added later, and passed for a single call (exhaustive in both tiers); style-history: "
    "one Style object mutated by every sequence of 1-3 setter calls and used the three ways after every call; newline: every "
    "'*line*' method found by reflection on IO / Output / SectionOutput x ANSI/plain x stream; indentation: Hypothesis "
    "programs of nested indent / increment_indent scopes (depth <= 4) at IO and single-output level with write_line "
    "bodies (multi-line texts, empty lines) and exceptional exits. Non-trivial: message with nesting depth >= 2 or "
    "literal tags/brackets; style with >= 2 attributes; indentation program with an exceptional exit. Distinct by "
    "hash (generated) / by construction (enumerated)."
)
ASSUMPTIONS = [
    "the only backslashes in messages are pastel's escape character directly in front of a tag (rendered as the literal tag "
    "text); messages tokenise unambiguously into the intended tags",
    "nested styles do not combine: the innermost style is in force (pastel semantics), checked per character",
    "SGR code sets are compared as sets; every styled run must be closed by ESC[0m",
]


def formatters():
    from clikit.formatter import AnsiFormatter, PlainFormatter

    return AnsiFormatter(forced=True), PlainFormatter()


def check_message(ctx, case):
    from clikit.api.io import Output
    from clikit.formatter import AnsiFormatter, PlainFormatter
    from clikit.io.output_stream import BufferedOutputStream

    nodes = case["nodes"]
    src, plain, styles, tags = markup.render_source(nodes)
    nt = markup.depth(nodes) >= 2 or markup.has_literal(nodes)
    ctx.case("message", case, nt, ["c11:depth-%d" % min(markup.depth(nodes), 3)])
    ansi, plainf = formatters()
    try:
        outs = {
            "ansi.format": ansi.format(src),
            "plain.format": plainf.format(src),
            "ansi.remove_format": ansi.remove_format(src),
            "plain.remove_format": plainf.remove_format(src),
        }
    except Exception as e:
        ctx.fail("message", "C11.same-text", case, plain, src, exc=e)
        return
    try:
        text, got_styles = markup.parse_sgr(outs["ansi.format"])
    except ValueError:
        ctx.fail("message", "C11.sgr", case, "only SGR sequences", outs["ansi.format"], sig="foreign-escape")
        return
    if text != plain:
        ctx.fail("message", "C11.same-text", case, plain, {"ansi.format stripped": text}, sig="ansi")
    for k in ("plain.format", "ansi.remove_format", "plain.remove_format"):
        if outs[k] != plain:
            ctx.fail("message", "C11.same-text", case, plain, {k: outs[k]}, sig=k)
    if text == plain and got_styles != styles:
        i = [j for j in range(len(styles)) if got_styles[j] != styles[j]][0]
        ctx.fail("message", "C11.sgr", case, {"char": i, "codes": sorted(styles[i])},
                 {"codes": sorted(got_styles[i]), "output": outs["ansi.format"]}, sig="per-character-style")
    if not outs["ansi.format"].endswith("\x1b[0m") and styles and styles[-1]:
        ctx.fail("message", "C11.sgr", case, "styled run closed by ESC[0m", outs["ansi.format"], sig="unclosed")
    # the same message with a style passed for this single call: the text outside any tag carries that style
    base = frozenset([35, 4])
    try:
        from clikit.api.formatter import Style

        single = ansi.format(src, Style().fg("magenta").underlined())
        text1, styles1 = markup.parse_sgr(single)
    except ValueError:
        ctx.fail("message", "C11.sgr", case, "only SGR sequences", single, sig="foreign-escape")
        return
    except Exception as e:
        ctx.fail("message", "C11.same-text", case, plain, src, exc=e)
        return
    again = ansi.format(src)
    if again != outs["ansi.format"]:
        ctx.fail("message", "C11.sgr", case, outs["ansi.format"], {"format(text) after format(text, style)": again},
                 sig="single-call-style-outlives-the-call")
    if text1 != plain:
        ctx.fail("message", "C11.same-text", case, plain, {"ansi.format(text, style) stripped": text1}, sig="ansi-single-call")
    elif styles1 != [c or base for c in styles]:
        want1 = [c or base for c in styles]
        i = [j for j in range(len(want1)) if styles1[j] != want1[j]][0]
        ctx.fail("message", "C11.sgr", case, {"char": i, "codes": sorted(want1[i])},
                 {"codes": sorted(styles1[i]), "output": single}, sig="single-call-per-character-style")
    # through outputs: decorated vs undecorated
    for label, fmt, decorated in (("plain", PlainFormatter(), False), ("ansi-unforced", AnsiFormatter(), False),
                                  ("ansi-forced", AnsiFormatter(forced=True), True)):
        s = BufferedOutputStream()
        o = Output(s, fmt)
        try:
            o.write(src)
        except Exception as e:
            ctx.fail("message", "C11.same-text", case, plain, label, exc=e)
            continue
        got = s.fetch()
        if decorated:
            if markup.strip_sgr(got) != plain:
                ctx.fail("message", "C11.same-text", case, plain, {label: got}, sig="output-" + label)
        else:
            if ESC in got:
                ctx.fail("message", "C11.plain-clean", case, "no escape byte", {label: got}, sig="escape")
            if got != plain:
                ctx.fail("message", "C11.plain-clean", case, plain, {label: got}, sig="output-" + label)


# ------------------------------------------------------------------------------------ styles
COLORS = [None] + sorted(markup.FG)


def style_codes(fg, bg, attrs):
    codes = set()
    if fg:
        codes.add(markup.FG[fg])
    if bg:
        codes.add(markup.FG[bg] + 10)
    for i, (meth, code) in enumerate(markup.STYLE_METHODS):
        if attrs >> i & 1:
            codes.add(code)
    return codes


def make_style(tag, fg, bg, attrs):
    from clikit.api.formatter import Style

    s = Style(tag)
    if fg:
        s.fg(fg)
    if bg:
        s.bg(bg)
    for i, (meth, code) in enumerate(markup.STYLE_METHODS):
        if attrs >> i & 1:
            getattr(s, meth)()
    return s


def check_style(ctx, case, by_construction=False):
    from clikit.api.formatter import StyleSet
    from clikit.formatter import AnsiFormatter, PlainFormatter

    fg, bg, attrs = case["fg"], case["bg"], case["attrs"]
    ctx.case("style", case, bin(attrs).count("1") >= 2, distinct_by_construction=by_construction)
    want = style_codes(fg, bg, attrs)
    tagged = LT + "t" + GT + "x" + LT + "/t" + GT
    results = {}
    try:
        results["style-set"] = AnsiFormatter(StyleSet([make_style("t", fg, bg, attrs)]), forced=True).format(tagged)
        f = AnsiFormatter(forced=True)
        f.add_style(make_style("t", fg, bg, attrs))
        results["add_style"] = f.format(tagged)
        results["single-call"] = AnsiFormatter(forced=True).format("x", make_style(None, fg, bg, attrs))
        p = PlainFormatter(StyleSet([make_style("t", fg, bg, attrs)]))
        results["plain"] = p.format(tagged)
        # a style added AFTER the formatter has already stripped / rendered something
        late = AnsiFormatter(forced=True)
        late.remove_format("warm " + LT + "b" + GT + "up" + LT + "/b" + GT)
        late.format("warm up")
        late.add_style(make_style("t", fg, bg, attrs))
        results["late-remove_format"] = late.remove_format(tagged)
        results["late-format"] = late.format(tagged)
        if attrs % 8 == 0:
            from clikit.api.io import Output
            from clikit.io.output_stream import BufferedOutputStream

            stream = BufferedOutputStream()
            undecorated = Output(stream, AnsiFormatter())  # not forced, stream without ANSI support
            undecorated.write("warm up ")
            undecorated.formatter.add_style(make_style("t", fg, bg, attrs))
            undecorated.write(tagged)
            results["late-undecorated-output"] = stream.fetch()
    except Exception as e:
        ctx.fail("style", "C11.sgr", case, sorted(want), None, exc=e)
        return
    if results["plain"] != "x":
        ctx.fail("style", "C11.plain-clean", case, "x", results["plain"], sig="plain-style")
    if results["late-remove_format"] != "x":
        ctx.fail("style", "C11.same-text", case, "x", {"remove_format after add_style": results["late-remove_format"]},
                 sig="late-style-remove-format")
    if results["late-format"] != results["add_style"]:
        ctx.fail("style", "C11.sgr", case, results["add_style"], {"format after add_style": results["late-format"]},
                 sig="late-style-format")
    if results.get("late-undecorated-output", "warm up x") != "warm up x":
        ctx.fail("style", "C11.plain-clean", case, "warm up x", results["late-undecorated-output"], sig="late-style-undecorated")
    for way in ("style-set", "add_style", "single-call"):
        got = results[way]
        if not want:
            if got != "x":
                ctx.fail("style", "C11.sgr", case, "x", {way: got}, sig=way + "-empty")
            continue
        m = markup.SGR_RE.match(got)
        ok = bool(m) and got.endswith("x\x1b[0m") and got == m.group(0) + "x\x1b[0m"
        codes = set(int(c) for c in m.group(1).split(";") if c) if m else None
        if not ok or codes != want:
            ctx.fail("style", "C11.sgr", case, sorted(want), {way: got}, sig=way)


SETTER_OPS = [("fg", "red"), ("fg", "blue"), ("bg", "white"), ("bg", None), ("bold", True), ("bold", False),
              ("underlined", True), ("inverse", True), ("italic", True), ("hidden", True), ("fg", None)]


def check_style_history(ctx, case, by_construction=False):
    """ONE Style object: setter calls interleaved with uses (single call, add_style, style set); every use renders
    the style's CURRENT colours and attributes."""
    from clikit.api.formatter import Style, StyleSet
    from clikit.formatter import AnsiFormatter

    ctx.case("style-history", case, True, distinct_by_construction=by_construction)
    style = Style("t")
    state = {"fg": None, "bg": None}
    attrs = set()
    codes_of = dict(markup.STYLE_METHODS)
    formatter = AnsiFormatter(forced=True)
    tagged = LT + "t" + GT + "x" + LT + "/t" + GT
    for i, (name, value) in enumerate(case["setters"]):
        if name in ("fg", "bg"):
            getattr(style, name)(value)
            state[name] = value
        else:
            getattr(style, name)(value)
            (attrs.add if value else attrs.discard)(name)
        want = set()
        if state["fg"]:
            want.add(markup.FG[state["fg"]])
        if state["bg"]:
            want.add(markup.FG[state["bg"]] + 10)
        want |= set(codes_of[a] for a in attrs)
        uses = {}
        try:
            uses["single-call"] = formatter.format("x", style)
            formatter.add_style(style)
            uses["add_style"] = formatter.format(tagged)
            uses["style-set"] = AnsiFormatter(StyleSet([style]), forced=True).format(tagged)
        except Exception as e:
            ctx.fail("style-history", "C11.sgr", case, sorted(want), {"after_setter": i}, exc=e)
            return
        for way, got in uses.items():
            m = markup.SGR_RE.match(got)
            codes = set(int(c) for c in m.group(1).split(";") if c) if m else set()
            ok = (got == "x") if not want else (bool(m) and got == m.group(0) + "x\x1b[0m" and codes == want)
            if not ok:
                ctx.fail("style-history", "C11.sgr", case, sorted(want), {"after_setter": i, way: got}, sig="history-" + way)
                return


STYLE_SET_OPS = [("add", "t", "red"), ("add", "t", "blue"), ("add", "w", "green"), ("remove", "t"), ("remove", "w"),
                 ("remove", "zz"), ("replace", "t", "yellow"), ("replace",)]


def check_style_set(ctx, case, by_construction=False):
    """A style set that is edited (add / remove / replace): a formatter built from it afterwards renders exactly the
    styles it holds at that moment; tags it does not hold are shown as written."""
    from clikit.api.formatter import Style, StyleSet
    from clikit.formatter import AnsiFormatter, PlainFormatter

    ctx.case("style-set", case, True, distinct_by_construction=by_construction)
    ss = StyleSet()
    held = {}
    src = LT + "t" + GT + "x" + LT + "/t" + GT + " " + LT + "w" + GT + "y" + LT + "/w" + GT
    for i, op in enumerate(case["ops"]):
        try:
            if op[0] == "add":
                ss.add(Style(op[1]).fg(op[2]))
                held[op[1]] = markup.FG[op[2]]
            elif op[0] == "remove":
                ss.remove(op[1])
                held.pop(op[1], None)
            else:
                ss.replace([Style(op[1]).fg(op[2])] if len(op) > 1 else [])
                held = {op[1]: markup.FG[op[2]]} if len(op) > 1 else {}
            ansi = AnsiFormatter(ss, forced=True).format(src)
            plain = PlainFormatter(ss).format(src)
            text, styles = markup.parse_sgr(ansi)
        except Exception as e:
            ctx.fail("style-set", "C11.sgr", case, sorted(held), {"after_op": i}, exc=e)
            return
        want_text, want_styles = "", []
        for tag, body in (("t", "x"), ("w", "y")):
            if want_text:
                want_text += " "
                want_styles.append(frozenset())
            if tag in held:
                want_text += body
                want_styles.append(frozenset([held[tag]]))
            else:
                lit = LT + tag + GT + body + LT + "/" + tag + GT
                want_text += lit
                want_styles.extend([frozenset()] * len(lit))
        if text != want_text or styles != want_styles:
            ctx.fail("style-set", "C11.sgr", case, {"text": want_text, "held": held}, {"after_op": i, "ansi": ansi},
                     sig="style-set")
            return
        if plain != want_text:
            ctx.fail("style-set", "C11.plain-clean", case, want_text, {"after_op": i, "plain": plain}, sig="style-set-plain")
            return


def shard_style_history(ctx, first):
    for n in (0, 1, 2):
        for rest in itertools.product(SETTER_OPS, repeat=n):
            check_style_history(ctx, {"setters": [list(SETTER_OPS[first])] + [list(r) for r in rest]}, True)


def shard_styles(ctx, fg_index):
    fg = COLORS[fg_index]
    for bg in COLORS:
        for attrs in range(128):
            check_style(ctx, {"fg": fg, "bg": bg, "attrs": attrs}, True)


# ----------------------------------------------------------------------------------- newline
def line_methods():
    from clikit.api.io import IO, Output
    from clikit.api.io.section_output import SectionOutput

    out = {}
    for cls in (IO, Output, SectionOutput):
        names = []
        for name, fn in inspect.getmembers(cls, callable):
            if name.startswith("_") or "line" not in name:
                continue
            params = list(inspect.signature(fn).parameters)
            if len(params) >= 2 and params[1] in ("string", "message"):
                names.append(name)
        out[cls.__name__] = sorted(names)
    return out


def check_newline(ctx, case, by_construction=False):
    from props import c10

    kind, method, fmt_kind, text = case["kind"], case["method"], case["formatter"], case["text"]
    ctx.case("newline", case, "section" in kind or "raw" in method, distinct_by_construction=by_construction)
    obj, streams = c10.build(kind, fmt_kind)
    target = "err" if method.startswith("error") else "out"
    try:
        getattr(obj, method)(text)
        getattr(obj, method)(text)
    except Exception as e:
        ctx.fail("newline", "C11.newline", case, "call returns", None, exc=e)
        return
    got = streams[target].fetch()
    visible = markup.strip_sgr(got) if fmt_kind == "ansi" else got
    # ignore cursor controls of ANSI sections in front of the text
    if not visible.endswith(text + "\n"):
        ctx.fail("newline", "C11.newline", case, text + "\\n at the end", got, sig="%s.%s" % (c10.KINDS[kind], method))
    elif visible.endswith("\n\n"):
        ctx.fail("newline", "C11.newline", case, "exactly one newline", got, sig="%s.%s-double" % (c10.KINDS[kind], method))
    elif visible.count(text + "\n") != 2:
        ctx.fail("newline", "C11.newline", case, "each call: text + one newline", got,
                 sig="%s.%s" % (c10.KINDS[kind], method))
    if fmt_kind == "plain" and ESC in got:
        ctx.fail("newline", "C11.plain-clean", case, "no escape byte", got, sig="newline-escape")


# ------------------------------------------------------------------------------- indentation
class Boom(Exception):
    pass


class Swallowed(Exception):
    pass


def run_program(items, io, model, expected, depth=0):
    """Execute the program on the real IO and on the model (dict stream -> indent)."""
    for it in items:
        if "write" in it:
            target = it["write"]
            out = io.output if target == "out" else io.error_output
            out.write_line(it["text"])
            ind = model[target]
            for line in it["text"].split("\n"):
                expected[target].append((" " * ind + line) if line else "")
        elif "raise" in it:
            raise Boom()
        elif "set" in it:
            # an indentation call whose result is not used as a scope: it holds until the enclosing scope is left
            scope, mode, n = it["set"], it["mode"], it["n"]
            if scope == "io":
                io.indent(n) if mode == "set" else io.increment_indent(n)
                targets = ["out", "err"]
            else:
                out = io.output if scope == "out" else io.error_output
                out.indent(n) if mode == "set" else out.increment_indent(n)
                targets = [scope]
            for t in targets:
                model[t] = n if mode == "set" else model[t] + n
        else:
            scope, mode, n = it["scope"], it["mode"], it["n"]
            saved = dict(model)
            if scope == "io":
                cm = io.indent(n) if mode == "set" else io.increment_indent(n)
                targets = ["out", "err"]
            else:
                out = io.output if scope == "out" else io.error_output
                cm = out.indent(n) if mode == "set" else out.increment_indent(n)
                targets = [scope]
            boom_seen = []
            try:
                with cm:
                    for t in targets:
                        model[t] = n if mode == "set" else model[t] + n
                    try:
                        run_program(it["body"], io, model, expected, depth + 1)
                    except Boom:
                        boom_seen.append(True)
                        raise
                if boom_seen:
                    raise Swallowed("a scope that was left by an exception did not let the exception through")
            except Boom:
                for t in targets:  # a scope restores the outputs it covers, nothing else
                    model[t] = saved[t]
                if not it.get("catch"):
                    raise
            else:
                for t in targets:
                    model[t] = saved[t]


def has_raise(items):
    return any(("raise" in it) or ("body" in it and has_raise(it["body"])) for it in items)


def check_indent(ctx, case):
    from clikit.io import BufferedIO

    ctx.case("indent", case, has_raise(case["program"]))
    ansi, plainf = formatters()
    for label, fmt in (("plain", plainf), ("ansi", ansi)):
        io = BufferedIO("", fmt)
        model = {"out": 0, "err": 0}
        expected = {"out": [], "err": []}
        prog = list(case["program"]) + [{"write": "out", "text": "end"}, {"write": "err", "text": "end"}]
        try:
            try:
                run_program(prog, io, model, expected)
            except Boom:
                # uncaught at top level: every scope has been left (and has restored the model on the way out);
                # the trailing writes did not happen, do them now
                run_program(prog[-2:], io, model, expected)
        except Swallowed as e:
            ctx.fail("indent", "C11.indent", case, "an exception raised inside a scope leaves the scope", str(e),
                     sig="scope-swallows-exception")
            return
        except Exception as e:
            ctx.fail("indent", "C11.indent", case, "program runs", label, exc=e)
            return
        for target, fetch in (("out", io.fetch_output), ("err", io.fetch_error)):
            got = fetch()
            want = "".join(l + "\n" for l in expected[target])
            if got != want:
                ctx.fail("indent", "C11.indent", case, want, {label + ":" + target: got}, sig=target)


def program_st():
    text = st.sampled_from(["x", "line one\nline two", "a\n\nb", "é中", "", "tail\n", "  ", "first\n \nsecond", "head\n\t\ntail",
                            "top\n\u00a0\u3000\nend"])  # round 9: non-empty lines made only of blanks are prefixed too
    write = st.fixed_dictionaries({"write": st.sampled_from(["out", "err"]), "text": text})
    rais = st.just({"raise": True})
    unscoped = st.fixed_dictionaries({"set": st.sampled_from(["io", "out", "err"]), "mode": st.sampled_from(["set", "inc"]),
                                      "n": st.integers(0, 6)})

    def scope(children):
        return st.fixed_dictionaries({
            "scope": st.sampled_from(["io", "out", "err"]),
            "mode": st.sampled_from(["set", "inc"]),
            "n": st.integers(0, 6),
            "catch": st.booleans(),
            "body": st.lists(children, max_size=4),
        })

    item = st.recursive(st.one_of(write, write, write, rais, unscoped), lambda ch: st.one_of(write, scope(ch)), max_leaves=12)
    return st.fixed_dictionaries({"program": st.lists(item, min_size=1, max_size=5)})


PARTS = {"style-set": check_style_set, "style-history": check_style_history, "message": check_message, "style": check_style, "newline": check_newline, "indent": check_indent}


HYP = {"message": (lambda ctx: markup.nodes_st().map(lambda n: {"nodes": n}), check_message),
       "indent": (lambda ctx: program_st(), check_indent)}

def run(ctx):
    from props import c10

    quick = ctx.tier == "quick"
    ctx.hyp_sharded("message", 8000 if quick else 100000, salt=1)
    ctx.parallel("shard_styles", list(range(len(COLORS))))
    ctx.exhaustive("style", True, "18 foreground x 18 background x 2^7 attribute sets, three ways of supplying the style")
    ctx.parallel("shard_style_history", list(range(len(SETTER_OPS))))
    ctx.exhaustive("style-history", True, "all sequences of 1-3 setter calls (11 setters) on one Style object, used three ways after every call")
    for n in (1, 2, 3, 4):
        for ops in itertools.product(STYLE_SET_OPS, repeat=n):
            check_style_set(ctx, {"ops": [list(o) for o in ops]}, True)
    ctx.exhaustive("style-set", True, "all sequences of 1-4 edits of one StyleSet over %d add / remove / replace operations" % len(STYLE_SET_OPS))
    lm = line_methods()
    ctx.note("line-writing methods by reflection: %r" % (lm,))
    for kind, cls in c10.KINDS.items():
        for method in lm[cls]:
            for fmt_kind in ("plain", "ansi"):
                for text in ("hello", "two words", "é中"):
                    check_newline(ctx, {"kind": kind, "method": method, "formatter": fmt_kind, "text": text}, True)
    ctx.exhaustive("newline", True, "object kinds x reflected line methods x formatter x 3 texts")
    ctx.hyp_sharded("indent", 6000 if quick else 60000, salt=2)
