"""C04 - a run always ends in a valid exit status and never leaks a handler failure."""
import itertools
import math
import os
import re

from hypothesis import strategies as st

from vf import markup, raisers

LEVEL = "fault_enumeration"
RULE = (
    "fault enumeration over handler outcomes: the full product of 19 return values x verbosity switch {none,-v,-vv,-vvv} "
    "x {--ansi,--no-ansi,neither}, and of 13 exception kinds (library and foreign types, KeyboardInterrupt, exceptions "
    "with int/str/None 'code' attributes) x 14 messages (plain, multi-line, non-ASCII, braces, empty, opening / closing "
    "/ unbalanced / unknown / invalid-colour style tags, trailing backslash) x verbosity x ANSI with the origin cycling "
    "over {generated module, recursion depth 1..60, mutual recursion, callers whose call spans several source lines, exec'd code with filename <string> / empty / "
    "deleted file, explicit and implicit cause chains up to depth 3}; pre-handle listeners {absent, passes, handles "
    "with status s, raises}; plus Hypothesis cases with generated messages. handlers come with five shapes (strict / defaulted / *args signature, a callable wrapped by CallbackHandler, an object with a custom handler method) and nineteen exception types. Non-trivial: an exception whose message or "
    "origin is not plain, or a return value outside {0, None}. Every enumerated cell is distinct by construction."
)
ASSUMPTIONS = [
    "BaseExceptions other than KeyboardInterrupt (SystemExit, GeneratorExit) are outside the domain",
    "KeyboardInterrupt must give a non-zero status without raising; a printed report is not demanded for it",
    "the report may appear on either captured stream; message text is compared modulo style markup, backslashes and whitespace",
    "exceptions whose own __str__ raises are outside the domain",
    "a library error with an empty message prints just that (simple mode shows the message only): no report text is demanded",
]

NAN, INF = float("nan"), float("inf")
RETURNS = {"None": None, "False": False, "0": 0, "0.0": 0.0, "empty-str": "", "empty-list": [], "True": True, "1": 1,
           "255": 255, "256": 256, "300": 300, "-5": -5, "2.7": 2.7, "str-7": "7", "str-0": "0", "str-x": "x",
           "nan": NAN, "inf": INF, "list-1": [1]}
L, G = markup.LT, markup.GT
MESSAGES = {
    "plain": "something failed",
    "multiline": "first line\nsecond line\n  third",
    "nonascii": "échec 失敗 ✗",
    "braces": "value {0} and {} and {name}",
    "empty": "",
    "open-tag": "before " + L + "info" + G + "after",
    "close-tag": "x " + L + "/info" + G + " y",
    "short-close": "a " + L + "/" + G + " b",
    "balanced": L + "b" + G + "bold" + L + "/b" + G + " text",
    "mismatched": L + "b" + G + "x" + L + "/info" + G,
    "unknown-tag": "in " + L + "module" + G + " at " + L + "/lambda" + G,
    "invalid-colour": L + "fg=purple" + G + "x",
    "trailing-backslash": "path C:\\dir\\",
    "lt-gt": "a < b > c << d",
}
EXC_KINDS = ["ValueError", "RuntimeError", "KeyError", "UserError", "LibCustom", "LibCannotParse", "LibNoSuchOption",
             "KeyboardInterrupt", "CodeInt", "CodeStr", "CodeNone", "OSError", "AssertionError",
             "TypeError", "AttributeError", "ZeroDivisionError", "StopIteration", "NotImplementedError", "IndexError"]
SIGNATURES = ["strict", "flexible", "varargs", "callback", "method"]
ORIGINS = ["module", "deep:1", "deep:7", "deep:60", "pingpong:5", "exec:<string>", "exec:", "exec:deleted",
           "chain:1:explicit", "chain:3:implicit", "chain:2:explicit", "multiline", "multiline-nested",
           "indent:3", "increment:2"]  # the last two: raised inside an indentation scope of the handler's I/O
LINES = [(["run"], {"a1": None}, {}), (["run", "v1"], {"a1": "v1"}, {}), (["run", "--foo", "v1"], {"a1": "v1"}, {"foo": True}),
         (["run", "-f"], {"a1": None}, {"foo": True})]


def make_exception(kind, message):
    from clikit.api.args.exceptions import CannotParseArgsException, NoSuchOptionException
    from clikit.api.exceptions import CliKitException

    class UserError(Exception):
        pass

    class LibCustom(RuntimeError, CliKitException):
        pass

    class CodeError(Exception):
        pass

    if kind == "UserError":
        return UserError(message)
    if kind == "LibCustom":
        return LibCustom(message)
    if kind == "LibCannotParse":
        return CannotParseArgsException(message)
    if kind == "LibNoSuchOption":
        return NoSuchOptionException(message or "x")
    if kind == "KeyboardInterrupt":
        return KeyboardInterrupt(message)
    if kind in ("CodeInt", "CodeStr", "CodeNone"):
        e = CodeError(message)
        e.code = {"CodeInt": 3, "CodeStr": "x", "CodeNone": None}[kind]
        return e
    if kind == "OSError":
        return OSError(2, message)
    return {"ValueError": ValueError, "RuntimeError": RuntimeError, "KeyError": KeyError,
            "AssertionError": AssertionError, "TypeError": TypeError, "AttributeError": AttributeError,
            "ZeroDivisionError": ZeroDivisionError, "StopIteration": StopIteration,
            "NotImplementedError": NotImplementedError, "IndexError": IndexError}[kind](message)


def raise_from(origin, exc):
    r = raisers.raiser("c04")
    if origin == "module":
        r.boom(exc)
    elif origin == "multiline":
        r.multiline(exc)
    elif origin == "multiline-nested":
        r.multiline_nested(exc)
    elif origin.startswith("deep:"):
        r.deep(int(origin.split(":")[1]), exc)
    elif origin.startswith("pingpong:"):
        r.ping(int(origin.split(":")[1]), exc)
    elif origin.startswith("exec-mid:"):
        # a source-less frame between two ordinary ones
        raisers.exec_caller(origin.split(":", 1)[1])(r.deep, 1, exc)
    elif origin.startswith("exec:"):
        fn = origin.split(":", 1)[1]
        if fn == "deleted":
            fn = os.path.join(raisers.workdir("c04"), "deleted_%d.py" % os.getpid())
        raisers.exec_raiser(fn)(exc)
    elif origin.startswith("chain:"):
        _, n, how = origin.split(":")
        cause = ValueError("root cause")
        for i in range(int(n) - 1):
            try:
                r.chained(RuntimeError("link %d" % i), cause, how == "explicit")
            except RuntimeError as e:
                cause = e
        r.chained(exc, cause, how == "explicit")
    else:
        raise AssertionError(origin)


def core(text):
    text = markup.strip_sgr(text)
    text = markup.TAG_RE.sub("", text)
    text = text.replace("\\", "")
    return re.sub(r"\s+", " ", text).strip()


def build(case, log):
    from clikit.api.args.format import Argument, Option
    from clikit.api.config.command_config import CommandConfig
    from clikit.api.event import PRE_HANDLE
    from clikit.config.default_application_config import DefaultApplicationConfig
    from clikit.console_application import ConsoleApplication

    outcome = case["outcome"]

    def body(args, io, command, needs_command=True):
        log.append(("run", args.arguments(False), args.options(False)))
        if needs_command and (command is None or command.name != "run"):
            log.append(("wrong-command-object", repr(command)))
        if outcome["kind"] == "return":
            return RETURNS[outcome["value"]]
        exc = make_exception(outcome["exc"], outcome["message"])
        log.append(("raised", exc))
        origin = outcome["origin"]
        if origin.startswith("indent:"):
            with io.indent(int(origin.split(":")[1])):
                io.write_line("inside the scope")
                raise_from("module", exc)
        if origin.startswith("increment:"):
            with io.output.increment_indent(int(origin.split(":")[1])):
                raise_from("deep:1", exc)
        raise_from(origin, exc)

    # the handler's signature: exactly (args, io, command), with a defaulted command, or *args
    signature = case.get("signature", "strict")
    if signature == "flexible":
        class RunHandler(object):
            def handle(self, args, io, command=None):
                return body(args, io, command)
    elif signature == "varargs":
        class RunHandler(object):
            def handle(self, *a):
                return body(a[0], a[1], a[2] if len(a) > 2 else None)
    elif signature == "method":
        # a handler object whose entry point has another name (set_handler_method)
        class RunHandler(object):
            def execute(self, args, io, command):
                return body(args, io, command)

            def handle(self, args, io, command):
                log.append(("other",))
                return 0
    elif signature == "callback":
        # a plain callable wrapped by the library's CallbackHandler (it is called with args and io only)
        from clikit.handler.callback_handler import CallbackHandler

        def RunHandler():
            return CallbackHandler(lambda args, io: body(args, io, None, needs_command=False))
    else:
        class RunHandler(object):
            def handle(self, args, io, command):
                return body(args, io, command)

    class OtherHandler(object):
        def handle(self, args, io, command):
            log.append(("other",))
            return 0

    cfg = DefaultApplicationConfig("app", "1.0")
    cfg.set_terminate_after_run(False)
    run = CommandConfig("run")
    run.add_argument("a1", Argument.OPTIONAL, "arg")
    run.add_option("foo", "f", Option.NO_VALUE, "flag")
    run.set_handler(RunHandler())
    if signature == "method":
        run.set_handler_method("execute")
    other = CommandConfig("other")
    other.set_handler(OtherHandler())
    sub = CommandConfig("sub")
    sub.set_handler(OtherHandler())
    run.add_sub_command_config(sub)
    cfg.add_command_config(run)
    cfg.add_command_config(other)
    lk = case.get("listener", "absent")
    if lk != "absent":
        def listener(event, name, dispatcher):
            log.append(("listener",))
            if lk.startswith("handles:"):
                event.handled(True)
                event.set_status_code(int(lk.split(":")[1]))
            elif lk == "raises":
                exc = make_exception("ValueError", MESSAGES["close-tag"])
                log.append(("raised", exc))
                raise_from("module", exc)

        cfg.add_event_listener(PRE_HANDLE, listener)
    return ConsoleApplication(cfg)


def check_run(ctx, case, by_construction=False):
    from clikit.args import ArgvArgs
    from clikit.io.input_stream import StringInputStream
    from clikit.io.output_stream import BufferedOutputStream

    outcome = case["outcome"]
    lk = case.get("listener", "absent")
    if outcome["kind"] == "return":
        nt = outcome["value"] not in ("0", "None")
    else:
        nt = outcome["message"] != MESSAGES["plain"] or outcome["origin"] != "module"
    ctx.case("run", case, nt, ["c04:" + outcome["kind"], "c04:listener-" + lk.split(":")[0]],
             distinct_by_construction=by_construction)
    log = []
    try:
        app = build(case, log)
    except BaseException as e:
        raise AssertionError("harness could not build the application: %r" % (e,))
    tokens, exp_args, exp_opts = LINES[case["line"]]
    tokens = list(tokens) + [t for t in (case.get("verbosity"), case.get("ansi")) if t]
    if case.get("stream") == "ascii":
        # real text streams that can only encode ASCII (like a terminal under LANG=C): the report must use its
        # ASCII fallbacks there (only for messages that are ASCII themselves)
        import io as _io

        from clikit.io.output_stream import StreamOutputStream

        class AsciiStream(StreamOutputStream):
            def __init__(self):
                self.raw = _io.BytesIO()
                super(AsciiStream, self).__init__(_io.TextIOWrapper(self.raw, encoding="ascii", errors="strict",
                                                                    write_through=True))

            def fetch(self):
                self._stream.flush()
                return self.raw.getvalue().decode("ascii")

        # history inside the case (so that it replays alone): the same failure is first reported at this verbosity
        # on UTF-8 capable streams by another application object; process-wide state of the library is reset before
        try:
            from clikit.ui.components.exception_trace import ExceptionTrace

            getattr(ExceptionTrace, "_FRAME_SNIPPET_CACHE", {}).clear()
        except ImportError:
            pass
        prime_log = []
        try:
            build(case, prime_log).run(ArgvArgs(["prog"] + tokens), StringInputStream(""), BufferedOutputStream(),
                                       BufferedOutputStream())
        except BaseException as e:
            if isinstance(e, (SystemExit, GeneratorExit)):
                raise
        out, err = AsciiStream(), AsciiStream()
    else:
        out, err = BufferedOutputStream(), BufferedOutputStream()
    try:
        status = app.run(ArgvArgs(["prog"] + tokens), StringInputStream(""), out, err)
    except BaseException as e:
        if isinstance(e, (SystemExit, GeneratorExit)):
            raise
        ctx.fail("run", "C04.no-raise", case, "run() returns a status", None, exc=e)
        return
    report = out.fetch() + err.fetch()
    if type(status) is not int or not 0 <= status <= 255:
        ctx.fail("run", "C04.range", case, "int in 0..255", repr(status), sig="range")
        return
    runs = [l for l in log if l[0] == "run"]
    others = [l for l in log if l[0] == "other"]
    raised = [l for l in log if l[0] == "raised"]
    if others:
        ctx.fail("run", "C04.once", case, "no other handler runs", log_repr(log), sig="other-handler")
    handled_by_listener = lk.startswith("handles:") or lk == "raises"
    if handled_by_listener:
        if runs:
            ctx.fail("run", "C04.once", case, "handler not invoked when the listener handles / fails", log_repr(log),
                     sig="listener")
    else:
        if len(runs) != 1:
            ctx.fail("run", "C04.once", case, "handler invoked exactly once", log_repr(log), sig="count")
        elif any(e[0] == "wrong-command-object" for e in log):
            ctx.fail("run", "C04.once", case, "handler receives its command object", log_repr(log), sig="command-object")
        else:
            got_args = {k: v for k, v in runs[0][1].items()}
            got_opts = {k: v for k, v in runs[0][2].items() if k == "foo"}  # the global switches are C09's subject
            want_args = {k: v for k, v in exp_args.items() if v is not None}
            if got_args != want_args or got_opts != exp_opts:
                ctx.fail("run", "C04.once", case, [want_args, exp_opts], [got_args, got_opts], sig="arguments")
    if lk.startswith("handles:"):
        s = int(lk.split(":")[1])
        want = 0 if not s else min(max(s, 1), 255)
        if status != want:
            ctx.fail("run", "C04.clamp", case, want, status, sig="listener-status")
        return
    if raised:
        exc = raised[-1][1]
        if status == 0:
            ctx.fail("run", "C04.exception-status", case, "non-zero status", status, sig="zero-status")
        if not isinstance(exc, KeyboardInterrupt):
            from clikit.api.exceptions import CliKitException

            if isinstance(exc, CliKitException) and not str(exc).strip():
                ctx.count("c04:library-error-with-empty-message")  # simple mode prints just the (empty) message
            elif not report.strip():
                ctx.fail("run", "C04.exception-status", case, "a printed error report", report, sig="no-report")
            else:
                try:
                    msg = str(exc)
                except Exception:
                    msg = ""
                plain_report = markup.strip_sgr(report)
                for tag in (L + "/error" + G, L + "/b" + G, L + "error" + G, L + "b" + G):
                    if plain_report.count(tag) > msg.count(tag):
                        ctx.fail("run", "C04.exception-status", case, "the renderer's own tags never show literally",
                                 report, sig="markup-leak")
                        break
                if plain_report.count("\\" + L) > msg.count("\\" + L):
                    ctx.fail("run", "C04.exception-status", case, "no escape artifacts (backslash before an angle bracket)",
                             report, sig="escape-artifact")
                c = core(report)
                for line in msg.split("\n"):
                    if core(line) and core(line) not in c:
                        ctx.fail("run", "C04.exception-status", case, core(line), report, sig="message-missing")
                        break
        return
    # returned value
    r = RETURNS[outcome["value"]]
    try:
        falsy = not r
    except Exception:
        falsy = False
    if falsy != (status == 0):
        ctx.fail("run", "C04.zero-iff-falsy", case, "0 iff falsy", {"returned": repr(r), "status": status}, sig="zero")
    elif not falsy:
        try:
            want = min(max(int(r), 1), 255)
        except (ValueError, TypeError, OverflowError):
            want = None
        if want is not None and status != want:
            ctx.fail("run", "C04.clamp", case, want, status, sig="clamp")
        if want is None and not 1 <= status <= 255:
            ctx.fail("run", "C04.clamp", case, "1..255", status, sig="unconvertible")


def log_repr(log):
    return [l[0] for l in log]


PARTS = {"run": check_run}


def enumerated_cases(tier):
    verbs = [None, "-v", "-vv", "-vvv"]
    ansis = [None, "--ansi", "--no-ansi"]
    n = 0
    for rv in RETURNS:
        for v in verbs:
            for a in ansis:
                n += 1
                yield {"line": n % len(LINES), "verbosity": v, "ansi": a, "listener": "absent",
                       "signature": SIGNATURES[(n // 2) % len(SIGNATURES)],
                       "outcome": {"kind": "return", "value": rv}}
    k = 0
    for ek in EXC_KINDS:
        for mk in MESSAGES:
            for v in verbs:
                for a in ansis[1:]:
                    k += 1
                    yield {"line": k % len(LINES), "verbosity": v, "ansi": a, "listener": "absent",
                           "signature": SIGNATURES[(k // 3) % len(SIGNATURES)],
                           "outcome": {"kind": "raise", "exc": ek, "message": MESSAGES[mk],
                                       "origin": ORIGINS[k % len(ORIGINS)]}}
    for lk in ("passes", "handles:0", "handles:3", "handles:300", "handles:-1", "raises"):
        for v in verbs:
            for a in ansis:
                for oc in ({"kind": "return", "value": "1"}, {"kind": "raise", "exc": "ValueError",
                                                              "message": MESSAGES["balanced"], "origin": "module"}):
                    yield {"line": 1, "verbosity": v, "ansi": a, "listener": lk, "outcome": oc}
    # reports on ASCII-only text streams, every verbosity and origin, ASCII messages
    for ek in ("ValueError", "UserError", "LibCustom", "KeyboardInterrupt", "TypeError"):
        for mk in ("plain", "multiline", "braces", "trailing-backslash", "lt-gt"):
            for v in verbs:
                k += 1
                yield {"line": k % len(LINES), "verbosity": v, "ansi": [None, "--ansi"][k % 2], "listener": "absent",
                       "stream": "ascii", "outcome": {"kind": "raise", "exc": ek, "message": MESSAGES[mk],
                                                       "origin": ORIGINS[k % len(ORIGINS)]}}
    # frames without a source line at every verbosity (the middle levels render single frame lines)
    for og in ("exec:<string>", "exec:", "exec:deleted", "exec-mid:<string>", "exec-mid:"):
        for v in verbs:
            for a in ansis:
                for ek in ("ValueError", "LibCustom"):
                    yield {"line": 1, "verbosity": v, "ansi": a, "listener": "absent",
                           "outcome": {"kind": "raise", "exc": ek, "message": MESSAGES["plain"], "origin": og}}
    if tier == "thorough":
        for ek in EXC_KINDS:
            for mk in MESSAGES:
                for og in ORIGINS:
                    yield {"line": 2, "verbosity": "-vvv", "ansi": "--ansi", "listener": "absent",
                           "outcome": {"kind": "raise", "exc": ek, "message": MESSAGES[mk], "origin": og}}


def shard(ctx, arg):
    i, n, tier = arg
    for j, c in enumerate(enumerated_cases(tier)):
        if j % n == i:
            check_run(ctx, c, True)


def message_st():
    pieces = st.sampled_from(["text", " ", "\n", "é", "{x}", "{}", L + "b" + G, L + "/b" + G, L + "info" + G, L + "/info" + G,
                              L + "/" + G, L + "zz" + G, L + "fg=red" + G, L + "fg=purple" + G, L, G, "\\", "%s", "100%"])
    return st.lists(pieces, max_size=8).map("".join)


def random_case():
    outcome = st.one_of(
        st.fixed_dictionaries({"kind": st.just("return"), "value": st.sampled_from(sorted(RETURNS))}),
        st.fixed_dictionaries({"kind": st.just("raise"), "exc": st.sampled_from(EXC_KINDS), "message": message_st(),
                               "origin": st.sampled_from(ORIGINS)}),
        st.fixed_dictionaries({"kind": st.just("raise"), "exc": st.sampled_from(EXC_KINDS), "message": message_st(),
                               "origin": st.sampled_from(ORIGINS)}),
    )
    return st.fixed_dictionaries({
        "line": st.integers(0, len(LINES) - 1),
        "verbosity": st.sampled_from([None, "-v", "-vv", "-vvv"]),
        "ansi": st.sampled_from([None, "--ansi", "--no-ansi"]),
        "listener": st.sampled_from(["absent"] * 4 + ["passes", "handles:0", "handles:7", "handles:999", "raises"]),
        "outcome": outcome,
    })


HYP = {"run": (lambda ctx: random_case(), check_run)}

def run(ctx):
    quick = ctx.tier == "quick"
    ctx.parallel("shard", [(i, 16, ctx.tier) for i in range(16)])
    ctx.exhaustive("run", False, "product of outcome kinds x verbosity x ANSI (see rule); Hypothesis part is sampled")
    ctx.hyp_sharded("run", 4000 if quick else 40000, salt=1)
    raisers.cleanup()
