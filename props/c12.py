"""C12 - listeners run by priority then registration order until propagation stops."""
import itertools

from hypothesis import strategies as st

LEVEL = "exploration"
RULE = (
    "exhaustive: every operation sequence of length exactly N (quick N=5, thorough N=7; all shorter ones are "
    "their prefixes and are judged step by step) over the 11-op alphabet {register(event e1|e2, priority 0|5, "
    "stops no|yes), dispatch(e1|e2|e3)}, each run three times from an empty dispatcher: with all queries evaluated "
    "after every step (which populates the sorted cache), without any query, and with the all-events get_listeners() "
    "evaluated first after every step; the same lengths over a 7-op re-entrant alphabet (a listener registers a "
    "further listener of higher / lower / equal priority for the running event through the dispatcher it is handed); "
    "the same lengths over a 7-op event-reuse alphabet (the event object returned by one dispatch is handed to the next); "
    "random: Hypothesis op lists "
    "up to 40 ops with 3 events, priorities {-3,0,5}, re-registration of an existing callable, listeners that "
    "register a further listener while being called, and every single query form (all events, one event, has) as its own operation. Non-trivial: a dispatch "
    "with >= 2 listeners of equal priority on that event, or a registration after a dispatch of the same event "
    "followed by another dispatch of it, or a stopper that is not last in order. Enumerated sequences are distinct "
    "by construction; random ones are deduplicated by hash."
)
ASSUMPTIONS = [
    "a callable registered twice counts as two registrations (it is called twice); get_listener_priority of such a "
    "callable may report any of its priorities",
    "a listener added while a dispatch is in progress takes part from the next dispatch on",
    "an event object that is already stopped when it is dispatched (e.g. the object a previous dispatch returned) reaches no listener: the stop state belongs to the event",
]

EVENTS = ["e1", "e2", "e3"]
OPS = [("r", e, p, s) for e in ("e1", "e2") for p in (0, 5) for s in (0, 1)] + [
    ("d", e) for e in EVENTS
]


class Runaway(Exception):
    """Raised by a listener when one dispatch has made more calls than any correct dispatch could."""


class Harness(object):
    """Real dispatcher + list-based reference model stepped together."""

    def __init__(self):
        from clikit.api.event import Event, EventDispatcher

        self.Event = Event
        self.d = EventDispatcher()
        self.regs = []  # (event, priority, listener id) in registration order
        self.listeners = {}  # id -> callable
        self.meta = {}  # id -> (stops, spawn)
        self.log = []
        self.bad_args = []
        self.pending = []
        self.dispatched = set()
        self.nt = False
        self.late = set()

    def make_listener(self, lid, stops, spawn=None):
        h = self

        def listener(event, event_name, dispatcher):
            h.log.append(lid)
            if len(h.log) > 300:
                raise Runaway()
            if dispatcher is not h.d or not isinstance(event_name, str):
                h.bad_args.append((lid, event_name))
            h.call_names.append(event_name)
            if spawn is not None:
                # registers a further listener for this very event WHILE the dispatch is running (through the
                # dispatcher it was handed); that listener takes part from the next dispatch on
                h.register(event_name, spawn[0], spawn[1], via=dispatcher)
            if stops:
                event.stop_propagation()

        listener.lid = lid
        self.listeners[lid] = listener
        self.meta[lid] = (stops, spawn)
        return listener

    def register(self, event, prio, stops, spawn=None, reuse=None, via=None):
        if reuse is not None and self.listeners:
            lid = sorted(self.listeners)[reuse % len(self.listeners)]
            fn = self.listeners[lid]
        else:
            lid = len(self.listeners)
            fn = self.make_listener(lid, stops, spawn)
        (via or self.d).add_listener(event, fn, prio)
        self.regs.append((event, prio, lid))
        if event in self.dispatched:
            self.late.add(event)
        return lid

    def expected_order(self, event):
        mine = [(i, r) for i, r in enumerate(self.regs) if r[0] == event]
        mine.sort(key=lambda t: (-t[1][1], t[0]))
        return [r[2] for _, r in mine]

    def dispatch(self, event, fail, pass_event=True, reuse_last=False):
        order = self.expected_order(event)
        if reuse_last and getattr(self, "last_event", None) is not None and self.last_event.is_propagation_stopped():
            order = []  # an event that is already stopped reaches no listener (see ASSUMPTIONS)
            self.nt = True
        prios = [p for (e, p, _) in self.regs if e == event]
        if len(prios) != len(set(prios)):
            self.nt = True
        if event in self.late:
            self.nt = True
        exp = []
        stopped = False
        for lid in order:
            exp.append(lid)
            if self.meta[lid][0]:
                stopped = True
                break
        if stopped and len(exp) < len(order):
            self.nt = True
        self.log = []
        self.call_names = []
        self.pending = []
        ev = self.Event() if pass_event else None
        already_stopped = False
        if reuse_last and getattr(self, "last_event", None) is not None:
            ev = self.last_event
            pass_event = True
            already_stopped = bool(ev.is_propagation_stopped())
        try:
            ret = self.d.dispatch(event, ev) if pass_event else self.d.dispatch(event)
        except Runaway:
            fail("C12.once", exp, "the dispatch keeps calling listeners (more than 300 calls)", sig="runaway")
            return
        except Exception as e:
            fail("C12.order", exp, None, exc=e)
            return
        self.dispatched.add(event)
        if self.log != exp:
            k = "C12.order"
            if sorted(self.log) != sorted(set(self.log)) and sorted(exp) == sorted(set(exp)):
                k = "C12.once"
            elif any(self.regs_event(l) != {event} for l in self.log if l not in exp):
                k = "C12.isolation"
            fail(k, exp, list(self.log))
        if any(n != event for n in self.call_names) or self.bad_args:
            fail("C12.order", event, self.call_names, sig="listener-arguments")
        if pass_event and ret is not ev:
            fail("C12.event", "the event object passed", repr(ret))
        if not pass_event and not isinstance(ret, self.Event):
            fail("C12.event", "an Event", repr(ret))
        self.last_event = ret
        if ret is not None and hasattr(ret, "is_propagation_stopped"):
            if bool(ret.is_propagation_stopped()) != (stopped or already_stopped):
                fail("C12.event", stopped, ret.is_propagation_stopped(), sig="stopped-flag")

    def regs_event(self, lid):
        return set(e for (e, _, l) in self.regs if l == lid)

    def query_all(self, fail):
        by_event = {}
        for e, p, lid in self.regs:
            by_event.setdefault(e, []).append((p, lid))
        allmap = self.d.get_listeners()
        got = dict((k, [getattr(f, "lid", None) for f in v]) for k, v in allmap.items() if v)
        exp = dict((e, self.expected_order(e)) for e in by_event)
        if got != exp:
            fail("C12.queries", exp, got, sig="get_listeners-all")

    def query_event(self, e, fail):
        got = [getattr(f, "lid", None) for f in self.d.get_listeners(e)]
        if got != self.expected_order(e):
            fail("C12.queries", self.expected_order(e), got, sig="get_listeners")

    def query_has(self, e, fail):
        exp = any(r[0] == e for r in self.regs) if e is not None else bool(self.regs)
        got = self.d.has_listeners(e) if e is not None else self.d.has_listeners()
        if bool(got) != exp:
            fail("C12.queries", exp, got, sig="has_listeners")

    def queries(self, fail):
        d = self.d
        by_event = {}
        for e, p, lid in self.regs:
            by_event.setdefault(e, []).append((p, lid))
        for e in EVENTS:
            exp = e in by_event
            got = d.has_listeners(e)
            if bool(got) != exp:
                fail("C12.queries", exp, got, sig="has_listeners")
            got = [getattr(f, "lid", None) for f in d.get_listeners(e)]
            if got != self.expected_order(e):
                fail("C12.queries", self.expected_order(e), got, sig="get_listeners")
        if bool(d.has_listeners()) != bool(self.regs):
            fail("C12.queries", bool(self.regs), d.has_listeners(), sig="has_listeners-any")
        allmap = d.get_listeners()
        got = dict((k, [getattr(f, "lid", None) for f in v]) for k, v in allmap.items() if v)
        exp = dict((e, self.expected_order(e)) for e in by_event)
        if got != exp:
            fail("C12.queries", exp, got, sig="get_listeners-all")
        for lid, fn in self.listeners.items():
            for e in EVENTS:
                ps = set(p for (p, l) in by_event.get(e, []) if l == lid)
                got = d.get_listener_priority(e, fn)
                if (not ps and got is not None) or (ps and got not in ps):
                    fail("C12.queries", sorted(ps) or None, got, sig="get_listener_priority")


def run_ops(ctx, part, ops, with_queries, by_construction=False, count=True):
    h = Harness()
    case = {"ops": [list(o) for o in ops], "queries": with_queries if isinstance(with_queries, str) else bool(with_queries)}

    def fail(clause, expected, observed, sig=None, exc=None):
        ctx.fail(part, clause, case, expected, observed, sig=sig, exc=exc)

    for i, op in enumerate(ops):
        k = op[0]
        if k == "r":
            h.register(op[1], op[2], op[3])
        elif k == "rs":  # register a listener that registers another one when called
            h.register(op[1], op[2], op[3], spawn=(op[4], op[5]))
        elif k == "rr":  # register an existing callable again
            h.register(op[1], op[2], 0, reuse=op[3])
        elif k == "d":
            h.dispatch(op[1], fail, pass_event=(len(op) < 3 or op[2]))
        elif k == "dl":  # dispatch the event object that the previous dispatch returned
            h.dispatch(op[1], fail, reuse_last=True)
        elif k == "q":
            h.queries(fail)
        elif k == "qa":
            h.query_all(fail)
        elif k == "qe":
            h.query_event(op[1], fail)
        elif k == "qh":
            h.query_has(op[1], fail)
        if with_queries == "all-first":
            # the all-events form of get_listeners() BEFORE any per-event lookup
            h.query_all(fail)
            h.queries(fail)
        elif with_queries:
            h.queries(fail)
    if count:
        ctx.case(part, case, h.nt, distinct_by_construction=by_construction)


def check_exhaustive(ctx, case):
    run_ops(ctx, "exhaustive", [tuple(o) for o in case["ops"]], case["queries"])


def check_random(ctx, case):
    run_ops(ctx, "random", [tuple(o) for o in case["ops"]], case["queries"])


PARTS = {"exhaustive": check_exhaustive, "random": check_random}


def shard_exhaustive(ctx, arg):
    n, prefix = arg
    prefix = tuple(tuple(o) for o in prefix)
    for rest in itertools.product(OPS, repeat=n - len(prefix)):
        ops = prefix + rest
        run_ops(ctx, "exhaustive", ops, True, by_construction=True)
        run_ops(ctx, "exhaustive", ops, False, by_construction=True)
        run_ops(ctx, "exhaustive", ops, "all-first", by_construction=True)


# re-entrant family: listeners that register a further listener (higher / lower / equal priority) while they run
OPS_REENTRANT = [("rs", "e1", 0, 0, 5, 0), ("rs", "e1", 5, 0, 0, 0), ("rs", "e1", 0, 1, 5, 0), ("rs", "e1", 0, 0, 0, 0),
                 ("r", "e1", 0, 0), ("r", "e1", 5, 0), ("d", "e1")]


# event-reuse family: the object returned by one dispatch is handed to the next one
OPS_REUSE = [("r", "e1", 0, 0), ("r", "e1", 5, 1), ("r", "e2", 0, 0), ("r", "e2", 5, 1), ("d", "e1"), ("dl", "e1"), ("dl", "e2")]


def shard_reuse(ctx, arg):
    n, first = arg
    for rest in itertools.product(OPS_REUSE, repeat=n - 1):
        ops = (tuple(first),) + rest
        if not any(o[0] == "dl" for o in ops):
            continue
        run_ops(ctx, "exhaustive", ops, True, by_construction=True)
        run_ops(ctx, "exhaustive", ops, False, by_construction=True)


def shard_reentrant(ctx, arg):
    n, first = arg
    for rest in itertools.product(OPS_REENTRANT, repeat=n - 1):
        ops = (tuple(first),) + rest
        if not any(o[0] == "rs" for o in ops) or not any(o[0] == "d" for o in ops):
            continue
        run_ops(ctx, "exhaustive", ops, True, by_construction=True)
        run_ops(ctx, "exhaustive", ops, False, by_construction=True)


def op_st():
    ev = st.sampled_from(EVENTS)
    pr = st.sampled_from([-3, 0, 5])
    b = st.integers(0, 1)
    return st.one_of(
        st.tuples(st.just("r"), ev, pr, b),
        st.tuples(st.just("r"), ev, pr, b),
        st.tuples(st.just("rs"), ev, pr, b, pr, b),
        st.tuples(st.just("rr"), ev, pr, st.integers(0, 7)),
        st.tuples(st.just("d"), ev, st.booleans()),
        st.tuples(st.just("d"), ev, st.booleans()),
        st.tuples(st.just("dl"), ev),
        st.tuples(st.just("q")),
        st.tuples(st.just("qa")),
        st.tuples(st.just("qe"), ev),
        st.tuples(st.just("qh"), st.one_of(st.none(), ev)),
    )


def _random_case(ctx):
    return st.fixed_dictionaries(
        {"ops": st.lists(op_st(), min_size=1, max_size=40).map(lambda l: [list(o) for o in l]),
         "queries": st.booleans()}
    )


HYP = {"random": (_random_case, check_random)}

def run(ctx):
    quick = ctx.tier == "quick"
    n = 5 if quick else 7
    if quick:
        jobs = [(n, [list(a)]) for a in OPS]
    else:
        jobs = [(n, [list(a), list(b)]) for a in OPS for b in OPS]
    ctx.parallel("shard_exhaustive", jobs)
    ctx.parallel("shard_reentrant", [(n, list(a)) for a in OPS_REENTRANT])
    ctx.parallel("shard_reuse", [(n, list(a)) for a in OPS_REUSE])
    ctx.exhaustive(
        "exhaustive", True, "all %d^%d op sequences, each with and without queries; all %d^%d sequences over the "
        "re-entrant alphabet (listeners that register a listener for the running event)" % (len(OPS), n, len(OPS_REENTRANT), n)
    )
    case = st.fixed_dictionaries(
        {"ops": st.lists(op_st(), min_size=1, max_size=40).map(lambda l: [list(o) for o in l]),
         "queries": st.booleans()}
    )
    ctx.hyp_sharded("random", 6000 if quick else 100000, salt=1)
