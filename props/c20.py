"""C20 - error traces always render and show the real message and failing line."""
import glob
import io as _io
import os
import re
import sys
import tokenize

from hypothesis import strategies as st

from props import c04
from vf import markup, raisers

LEVEL = "exploration"
RULE = (
    "Hypothesis: exceptions raised from generated source files written to a per-run directory (0-15 filler lines "
    "before and after the raising function and inside it, drawn from assignments, comments, blank lines, non-ASCII "
    "identifiers and strings, tab-indented blocks, multi-line strings and brackets, backslash continuations, "
    "markup-like string literals, multi-line strings with exotic separators (form feed, U+2028, NEL) and multi-line f-strings; raise at the first / middle / last line; with and without trailing newline; CRLF), "
    "from exec'd / source-less code, with the C04 message set and generated messages, cause chains, recursion depth "
    "1..60 x verbosity x UTF-8 on/off x ignore pattern matching or not x simple on/off; ignore-sequence: all sequences of 2-3 "
    "renders in one process of exceptions from the same files under 5 ignore patterns x verbosity mixes; the highlighter alone over "
    "every Python file under /repo/src and a fixed list of stdlib modules at every 7th line. Non-trivial: a source "
    "with a multi-line token within 4 lines of the raise, markup-like text or no source at all; a message with markup "
    "or newlines; recursion depth >= 10. Distinct by hash."
)
ASSUMPTIONS = [
    "snippet lines are recognised by the pattern [marker] <number><delimiter> <code>; messages contain no such pattern",
    "a source line is 'made of single-line tokens' when no token that spans several lines (as Python's tokenizer reports it) "
    "touches it; backslash-continued lines are single-line tokens",
    "the message is compared modulo style markup, backslashes and whitespace",
]

L, G = markup.LT, markup.GT
FILLER = [
    "x = 1",
    "y = 1 + 2  # trailing comment",
    "# a comment line",
    "",
    "name = 'value'",
    "ü = \"é中\"",
    "numbers = [1, 2.5, 0x10]",
    "if True:\n\tpass",
    "s = \"\"\"multi\nline\nstring\"\"\"",
    "items = [\n    1,\n    2,\n]",
    "total = 1 + \\\n    2",
    "t = \"" + L + "b" + G + "bold" + L + "/b" + G + "\"",
    "u = '" + L + "/info" + G + "'",
    "v = \"a " + L + " b\"",
    "w = lambda q: q  # " + L + "lambda" + G,
    "z = {'k': (1, 2)}",
    "def helper(a, b=2):\n    return a",
    "class K(object):\n    attr = None",
    "r = r'raw\\d+'",
    "doc = \"\"\"para\x0cgraph, next\u2028line\nsecond\x0bpart\x85end\n\"\"\"",
    "rep = f\"\"\"Report\nvalue:\n{1 + 1} units\n{2} more\"\"\"",
    "chain = 1 + \\\n    \\\n    2",
    "fs = f\"" + L + "b" + G + "{1 + 1}" + L + "/b" + G + " is " + L + "comment" + G + "short" + L + "/comment" + G + "\"",
    "fu = f'" + L + "error" + G + "{2}" + L + "/b" + G + " " + L + "/info" + G + " {3!r:>4}'",
    "num = 0x1F + 1_000 + 1e-3 + 2j  # " + L + "/" + G,
]
MARKUPISH = {11, 12, 13, 14, 22, 23, 24}
MULTILINE_TOKEN = {8, 19, 20}
SNIPPET_RE = re.compile(r"^\s*(?P<mark>→|>)?\s*(?P<no>\d+)(?:│|\|) ?(?P<code>.*)$")


def build_source(case):
    """Returns (source text, 1-based raise line number, list of logical source lines)."""
    lines = []
    if case.get("module_level"):
        # the failing statement stands at column 0 of the module (possibly as the very last line of the file)
        lines.append("import builtins as _b")
        for i in case["before"]:
            lines.extend(FILLER[i].split("\n"))
        lines.append("raise _b._vf_exc")
        raise_line = len(lines)
        for i in case["after"]:
            lines.extend(FILLER[i].split("\n"))
        nl = "\r\n" if case.get("crlf") else "\n"
        return nl.join(lines) + (nl if case.get("trailing_newline", True) else ""), raise_line, lines
    for i in case["before"]:
        lines.extend(FILLER[i].split("\n"))
    lines.append("def boom(exc):")
    for i in case["inside"]:
        lines.extend(("    " + l if l else l) for l in FILLER[i].split("\n"))
    lines.append("    raise exc")
    raise_line = len(lines)
    for i in case["inside_after"]:
        lines.extend(("    " + l if l else l) for l in FILLER[i].split("\n"))
    for i in case["after"]:
        lines.extend(FILLER[i].split("\n"))
    nl = "\r\n" if case.get("crlf") else "\n"
    text = nl.join(lines)
    if case.get("trailing_newline", True):
        text += nl
    return text, raise_line, lines


def multiline_token_lines(source):
    """Line numbers touched by a token that spans several lines."""
    out = set()
    try:
        for tok in tokenize.generate_tokens(_io.StringIO(source.replace("\r\n", "\n")).readline):
            if tok.start[0] != tok.end[0] and tok.type in (tokenize.STRING,) + ((getattr(tokenize, "FSTRING_MIDDLE"),)
                                                                               if hasattr(tokenize, "FSTRING_MIDDLE") else ()):
                out.update(range(tok.start[0], tok.end[0] + 1))
    except (tokenize.TokenError, IndentationError, SyntaxError):
        pass
    return out


def make_io(case):
    from clikit.formatter import AnsiFormatter, PlainFormatter
    from clikit.io import BufferedIO

    fmt = AnsiFormatter(forced=True) if case.get("ansi") else PlainFormatter()
    io = BufferedIO("", fmt, supports_utf8=case.get("utf8", True))
    io.set_verbosity(case.get("verbosity", 0))
    return io


def check_trace(ctx, case):
    from clikit.ui.components.exception_trace import ExceptionTrace

    origin = case["origin"]
    source = None
    raise_line = None
    src_lines = None
    path = None
    func = "boom"
    if origin == "file" and case.get("module_level"):
        import builtins

        source, raise_line, src_lines = build_source(case)
        func = "<module>"

        def boom(exc):
            builtins._vf_exc = exc
            try:
                raisers.load_source("c20", source)
            finally:
                del builtins._vf_exc
    elif origin == "file":
        source, raise_line, src_lines = build_source(case)
        try:
            mod, path = raisers.load_source("c20", source)
        except SyntaxError as e:
            raise AssertionError("generator produced an invalid source: %r\n%s" % (e, source))
        boom = mod.boom
    elif origin.startswith("exec:"):
        fn = origin.split(":", 1)[1]
        boom = raisers.exec_raiser(fn if fn != "missing" else os.path.join(raisers.workdir("c20"), "missing.py"))
    else:
        boom = None
    exc = c04.make_exception(case["exc"], case["message"])
    depth = case.get("depth", 0)
    try:
        if boom is None:
            c04.raise_from(origin, exc)
        elif depth:
            def rec(n):
                if n <= 0:
                    boom(exc)
                rec(n - 1)
            rec(depth)
        else:
            boom(exc)
    except BaseException as e:
        caught = e
    used = set(case.get("before", [])) | set(case.get("inside", [])) | set(case.get("inside_after", [])) | set(case.get("after", []))
    near = set(case.get("inside", [])) | set(case.get("inside_after", []))
    nt = bool(used & MARKUPISH) or bool(near & MULTILINE_TOKEN) or origin != "file" or depth >= 10 \
        or "\n" in case["message"] or L in case["message"]
    ctx.case("trace", case, nt, ["c20:origin-" + origin.split(":")[0], "c20:verbosity-%d" % case.get("verbosity", 0)])
    io = make_io(case)
    trace = ExceptionTrace(caught)
    ignore = case.get("ignore")
    if ignore == "match":
        trace.ignore_files_in("^" + re.escape(raisers.WORK))
    elif ignore == "nomatch":
        trace.ignore_files_in("^/nonexistent/")
    simple = bool(case.get("simple"))
    try:
        trace.render(io, simple)
    except Exception as e:
        ctx.fail("trace", "C20.renders", case, "render returns", source, exc=e)
        return
    raw = io.fetch_output() + io.fetch_error()
    text = markup.strip_sgr(raw)
    msg = str(caught)
    ccore = c04.core(text)
    pos = 0
    for line in msg.split("\n"):
        lc = c04.core(line)
        if not lc:
            continue
        at = ccore.find(lc, pos)
        if at < 0:
            ctx.fail("trace", "C20.name-message", case, lc, text, sig="message")
            return
        pos = at + len(lc)
    if simple:
        return
    if type(caught).__name__ not in text:
        ctx.fail("trace", "C20.name-message", case, type(caught).__name__, text, sig="class-name")
    plain_tags = [L + "/error" + G, L + "/b" + G, L + "/" + G]
    for tag in plain_tags:
        if text.count(tag) > msg.count(tag) + (source or "").count(tag):
            ctx.fail("trace", "C20.verbatim", case, "the renderer's own tags never show literally", text, sig="markup-leak")
            return
    if text.count("\\" + L) > msg.count("\\" + L) + (source or "").count("\\" + L):
        ctx.fail("trace", "C20.verbatim", case, "no escape artifacts (backslash before an angle bracket)", text,
                 sig="escape-artifact")
        return
    if origin != "file":
        return
    # the snippet of the innermost frame: the block after the 'at <file>:<line> in boom' line
    out_lines = text.split("\n")
    start = None
    for i, l in enumerate(out_lines):
        if l.strip().startswith("at ") and l.rstrip().endswith("in " + func) and (":%d " % raise_line) in l:
            start = i
    if start is None:
        ctx.fail("trace", "C20.marker", case, "an 'at file:%d in %s' line" % (raise_line, func), text, sig="location")
        return
    snippet = []
    for l in out_lines[start + 1:]:
        m = SNIPPET_RE.match(l)
        if not m:
            if snippet:
                break
            continue
        snippet.append(m)
    if not snippet:
        ctx.fail("trace", "C20.numbering", case, "a code snippet", text, sig="no-snippet")
        return
    numbers = [int(m.group("no")) for m in snippet]
    if numbers != list(range(numbers[0], numbers[0] + len(numbers))):
        ctx.fail("trace", "C20.numbering", case, "consecutive line numbers", numbers, sig="numbering")
        return
    marked = [int(m.group("no")) for m in snippet if m.group("mark")]
    if marked != [raise_line]:
        ctx.fail("trace", "C20.marker", case, [raise_line], {"marked": marked, "numbers": numbers}, sig="marker")
        return
    if raise_line not in numbers:
        ctx.fail("trace", "C20.marker", case, raise_line, numbers, sig="raise-line-missing")
        return
    ml = multiline_token_lines(source)
    for m in snippet:
        n = int(m.group("no"))
        if n in ml or n > len(src_lines):
            continue
        want = src_lines[n - 1].rstrip()
        got = m.group("code").rstrip()
        if got != want:
            sig = "verbatim"
            if L in want:
                sig = "verbatim-markup"
            elif want.endswith("\\"):
                sig = "verbatim-backslash"
            ctx.fail("trace", "C20.verbatim", case, {"line": n, "source": want}, got, sig=sig)
            return
    # ignored frames
    if case.get("module_level"):
        return
    if ignore in ("match", "nomatch") and case.get("verbosity", 0) >= 1:
        listed = ("Stack trace" in text) and any(raisers.WORK.replace(os.getcwd() + os.sep, "") in l and "in rec" not in l
                                                for l in out_lines[:start] if " in " in l)
        # frames of the generated module: boom is the innermost (never listed); with depth > 0 there are none from the module


def check_ignore(ctx, case):
    """Frames under an ignored path are left out of the stack listing unless the verbosity is debug."""
    from clikit.ui.components.exception_trace import ExceptionTrace

    verbosity = case["verbosity"]
    ctx.case("ignore", case, verbosity == 4)
    src = "def outer(f, exc):\n    return inner(f, exc)\n\n\ndef inner(f, exc):\n    return f(exc)\n"
    mod, path = raisers.load_source("c20i", src)
    boom = raisers.raiser("c20b").boom
    exc = ValueError("ignored frames")
    try:
        mod.outer(boom, exc)
    except ValueError as e:
        caught = e
    io = make_io({"verbosity": verbosity, "ansi": case.get("ansi")})
    trace = ExceptionTrace(caught)
    if case["pattern"] == "match":
        trace.ignore_files_in("^" + re.escape(os.path.dirname(path)))
    elif case["pattern"] == "nomatch":
        trace.ignore_files_in("^/nonexistent/")
    try:
        trace.render(io)
    except Exception as e:
        ctx.fail("ignore", "C20.renders", case, "render returns", None, exc=e)
        return
    text = markup.strip_sgr(io.fetch_output() + io.fetch_error())
    shown = ("in outer" in text, "in inner" in text)
    if verbosity == 0:
        want = (False, False)  # no stack listing at normal verbosity
    elif case["pattern"] == "match" and verbosity < 4:
        want = (False, False)
    else:
        want = (True, True)
    if shown != want:
        ctx.fail("ignore", "C20.ignore", case, {"outer/inner listed": list(want)}, {"listed": list(shown), "text": text})


_SEQ = {}


def check_ignore_sequence(ctx, case):
    """Several renders in ONE process of exceptions from the SAME files under different ignore patterns: every render is
    judged on its own pattern (nothing may be remembered from an earlier render)."""
    from clikit.ui.components.exception_trace import ExceptionTrace

    ctx.case("ignore-sequence", case, len(set(case["patterns"])) > 1)
    if "mod" not in _SEQ:
        src = "def outer(f, exc):\n    return inner(f, exc)\n\n\ndef inner(f, exc):\n    return f(exc)\n"
        _SEQ["mod"], _SEQ["path"] = raisers.load_source("c20q", src)
        _SEQ["boom"] = raisers.raiser("c20qb").boom
    mod, path = _SEQ["mod"], _SEQ["path"]
    for i, (pattern, verbosity) in enumerate(zip(case["patterns"], case["verbosities"])):
        try:
            mod.outer(_SEQ["boom"], ValueError("sequence %d" % i))
        except ValueError as e:
            caught = e
        io = make_io({"verbosity": verbosity})
        trace = ExceptionTrace(caught)
        if pattern == "match":
            trace.ignore_files_in("^" + re.escape(os.path.dirname(path)))
        elif pattern == "match-file":
            trace.ignore_files_in("^" + re.escape(path))
        elif pattern == "nomatch":
            trace.ignore_files_in("^/nonexistent/")
        elif pattern == "nomatch2":
            trace.ignore_files_in("^" + re.escape(os.path.dirname(path)) + "/other/")
        try:
            trace.render(io)
        except Exception as e:
            ctx.fail("ignore-sequence", "C20.renders", case, "render returns", {"step": i}, exc=e)
            return
        text = markup.strip_sgr(io.fetch_output() + io.fetch_error())
        shown = ("in outer" in text, "in inner" in text)
        if verbosity == 0:
            want = (False, False)
        elif pattern in ("match", "match-file") and verbosity < 4:
            want = (False, False)
        else:
            want = (True, True)
        if shown != want:
            ctx.fail("ignore-sequence", "C20.ignore", case, {"step": i, "outer/inner listed": list(want)},
                     {"listed": list(shown), "text": text}, sig="sequence")
            return


def check_highlighter(ctx, case, by_construction=False):
    from clikit.ui.components.exception_trace import Highlighter

    path, line = case["file"], case["line"]
    ctx.case("highlighter", case, True, distinct_by_construction=by_construction)
    with open(path, encoding="utf-8", errors="replace") as f:
        source = f.read()
    try:
        lines = Highlighter(supports_utf8=True).code_snippet(source, line, 4, 4)
    except Exception as e:
        ctx.fail("highlighter", "C20.highlighter", case, "a snippet", None, exc=e)
        return
    if len(lines) > 9:
        ctx.fail("highlighter", "C20.highlighter", case, "<= 9 lines", len(lines), sig="length")
        return
    from clikit.formatter import PlainFormatter

    try:
        rendered = [PlainFormatter().remove_format(l) for l in lines]
    except Exception as e:
        ctx.fail("highlighter", "C20.highlighter", case, "snippet lines are valid markup", lines, exc=e)
        return
    nums = []
    for r in rendered:
        m = SNIPPET_RE.match(r)
        if not m:
            ctx.fail("highlighter", "C20.highlighter", case, "numbered line", r, sig="format")
            return
        nums.append(int(m.group("no")))
    if nums and (nums != list(range(nums[0], nums[0] + len(nums))) or not (nums[0] <= line <= nums[-1])):
        ctx.fail("highlighter", "C20.highlighter", case, "consecutive numbers around %d" % line, nums, sig="numbering")


PARTS = {"ignore-sequence": check_ignore_sequence, "trace": check_trace, "ignore": check_ignore, "highlighter": check_highlighter}


def corpus():
    files = sorted(glob.glob("/repo/src/clikit/**/*.py", recursive=True))
    import ast as _a, json as _j, textwrap as _t, argparse as _p, dataclasses as _d, string as _s

    files += [m.__file__ for m in (_a, _j, _t, _p, _d, _s, tokenize, re)]
    return files


def shard_highlighter(ctx, arg):
    i, n = arg
    for j, path in enumerate(corpus()):
        if j % n != i:
            continue
        with open(path, encoding="utf-8", errors="replace") as f:
            count = f.read().count("\n") + 1
        for line in range(1, count + 1, 7):
            check_highlighter(ctx, {"file": path, "line": line}, True)


def trace_case():
    filler = st.lists(st.integers(0, len(FILLER) - 1), max_size=15)
    inner = st.lists(st.sampled_from([i for i in range(len(FILLER)) if i not in (16, 17)]), max_size=6)
    file_case = st.fixed_dictionaries({
        "origin": st.just("file"),
        "before": filler, "inside": inner, "inside_after": inner, "after": filler,
        "trailing_newline": st.booleans(), "crlf": st.integers(0, 5).map(lambda x: x == 0),
        "depth": st.sampled_from([0, 0, 0, 1, 5, 10, 60]),
    })
    other_case = st.fixed_dictionaries({
        "origin": st.sampled_from(["exec:<string>", "exec:", "exec:missing", "deep:7", "deep:60", "pingpong:5",
                                   "chain:2:explicit", "chain:3:implicit", "multiline", "multiline-nested"]),
    })
    common = st.fixed_dictionaries({
        "exc": st.sampled_from(c04.EXC_KINDS[:7] + c04.EXC_KINDS[8:]),
        "message": st.one_of(st.sampled_from(sorted(c04.MESSAGES.values())), c04.message_st()),
        "verbosity": st.sampled_from([0, 1, 2, 4]),
        "utf8": st.booleans(),
        "ansi": st.booleans(),
        "ignore": st.sampled_from([None, "match", "nomatch"]),
        "simple": st.integers(0, 5).map(lambda x: x == 0),
    })
    module_case = st.fixed_dictionaries({
        "origin": st.just("file"), "module_level": st.just(True),
        "before": filler, "after": st.one_of(st.just([]), st.just([]), filler), "inside": st.just([]),
        "inside_after": st.just([]), "trailing_newline": st.booleans(), "crlf": st.integers(0, 5).map(lambda x: x == 0),
        "depth": st.sampled_from([0, 0, 1, 5]),
    })
    return st.tuples(st.one_of(file_case, file_case, file_case, module_case, other_case), common).map(lambda t: dict(t[0], **t[1]))


HYP = {"trace": (lambda ctx: trace_case(), check_trace)}

def run(ctx):
    quick = ctx.tier == "quick"
    ctx.hyp_sharded("trace", 4000 if quick else 40000, salt=1)
    for v in (0, 1, 2, 4):
        for pattern in ("none", "match", "nomatch"):
            for ansi in (False, True):
                check_ignore(ctx, {"verbosity": v, "pattern": pattern, "ansi": ansi})
    import itertools

    pats = ["none", "match", "match-file", "nomatch", "nomatch2"]
    for n in (2, 3):
        for seq in itertools.product(pats, repeat=n):
            for vs in ((1,) * n, (2, 1, 4)[:n], (4, 1, 1)[:n]):
                check_ignore_sequence(ctx, {"patterns": list(seq), "verbosities": list(vs)})
    ctx.parallel("shard_highlighter", [(i, 16) for i in range(16)])
    raisers.cleanup()
