"""C13 - help pages are complete, respect hiding, fit the terminal and never fail."""
import os
import re

from hypothesis import strategies as st

from props import c03
from vf import gen_tree, markup

LEVEL = "exploration"
RULE = (
    "Hypothesis: command trees with globally unique names (depth <= 3, default / anonymous / hidden / disabled "
    "commands, aliases), commands carrying 0-2 arguments and 0-2 options of every mode and type with defaults of "
    "every type, descriptions absent / short / 40 words / with newlines, help texts with the documented "
    "placeholders, under the default application config x terminal width in {the computed minimum (longest label "
    "offset + 12), 40..200} x ANSI/plain; for every tree the application page and the page of every command are "
    "rendered directly (twice) and through 'help <path>', '<path> --help' and '<path> -h'. Non-trivial: a page "
    "with an absent description, a hidden sibling, a description longer than two terminal lines, or inherited "
    "options. Distinct by hash of (tree, width, page)."
)
ASSUMPTIONS = [
    "the margin used for the minimal terminal width is 12 columns beyond the widest label offset of the page "
    "(computed by the harness from the tree: synopsis labels and option labels with their indentation)",
    "presence is decided by whole-word search; names are globally unique and pairwise non-substring",
    "a hidden default sub-command whose synopsis stands in for its parent's usage is not judged on the parent's page",
    "help texts only use the documented placeholders {script_name} and {command_name}",
    "help texts of applications and commands are str.format templates (placeholders {script_name} and {command_name}); literal braces are written doubled",
]

L, G = markup.LT, markup.GT


def word_in(name, text):
    return re.search(r"(?<![\w-])" + re.escape(name) + r"(?![\w-])", text) is not None


def option_labels(o):
    """(preferred label, alternative label): the short name is preferred unless the long one was asked for."""
    if o["short"] and o.get("prefer") != "long":
        return "-" + o["short"], "--" + o["long"]
    if o["short"]:
        return "--" + o["long"], "-" + o["short"]
    return "--" + o["long"], None


def min_width(tree, path):
    """Over-approximation of the widest label offset on the page of the command at path, plus the margin."""
    app = "my-app"
    node = gen_tree.node_at(tree, "default", path) if path else None
    widest = 30  # global option labels: '  --no-interaction (-n)' + padding
    if node is not None:
        syn = 2 + 4 + len(app) + sum(1 + len(n) for n in path) + 3
        subs = [s for s in node["subs"]]
        for s in subs:
            widest = max(widest, syn + 1 + len(s["name"]) + 2)
        widest = max(widest, syn)
        opts = list(node["opts"])
        for s in subs:
            opts += s["opts"]
        for o in opts + [x for n in range(len(path)) for x in gen_tree.node_at(tree, "default", path[: n + 1])["opts"]]:
            a, b = option_labels(o)
            widest = max(widest, 4 + len(a) + (len(b) + 3 if b else 0) + 2)
        for a in [x for n in range(len(path)) for x in gen_tree.node_at(tree, "default", path[: n + 1])["args"]]:
            widest = max(widest, 4 + len(a["name"]) + 2 + 2)
    return widest + 12


def render_direct(app, path, width, ansi):
    from clikit.formatter import AnsiFormatter, PlainFormatter
    from clikit.io import BufferedIO
    from clikit.ui.help import ApplicationHelp, CommandHelp
    from clikit.ui.rectangle import Rectangle

    io = BufferedIO("", AnsiFormatter(app.config.style_set, True) if ansi else PlainFormatter(app.config.style_set))
    io.set_terminal_dimensions(Rectangle(width, 25))
    if path:
        CommandHelp(gen_tree.find_real(app, path)).render(io)
    else:
        ApplicationHelp(app).render(io)
    return io.fetch_output()


def run_line(app, tokens, ansi):
    from clikit.args import ArgvArgs
    from clikit.io.input_stream import StringInputStream
    from clikit.io.output_stream import BufferedOutputStream

    out, err = BufferedOutputStream(), BufferedOutputStream()
    status = app.run(ArgvArgs(["prog"] + tokens + (["--ansi"] if ansi else [])), StringInputStream(""), out, err)
    return status, out.fetch(), err.fetch()


def check_page(ctx, case):
    tree, path, width, ansi = case["tree"], case["path"], case["width"], case["ansi"]
    os.environ["COLUMNS"] = str(width)
    rec = c03.Recorder()
    try:
        def configure(cfg):
            cfg.set_name("my-app").set_version(case.get("version", "1.0"))
            if case.get("display"):
                cfg.set_display_name(case["display"])
            if case.get("app_help"):
                cfg.set_help(case["app_help"])

        app = gen_tree.build_app(tree, "default", rec.handler_for, configure=configure)
    except Exception as e:
        raise AssertionError("generator built an illegal tree: %r" % (e,))
    node = gen_tree.node_at(tree, "default", path) if path else None
    siblings = (node["subs"] if node else tree["commands"])
    # non-triviality
    elems = []
    if node:
        elems = node["opts"] + node["args"]
    nodesc = any(e.get("desc") is None for e in elems) or (node is not None and node.get("desc") is None)
    longdesc = any(e.get("desc") and len(e["desc"]) > 2 * width for e in elems)
    inherited = bool(path) and (len(path) > 1 or True)
    hidden_sibling = any(gen_tree.is_hidden(s) or not gen_tree.is_enabled(s) for s in siblings)
    ctx.case("page", case, nodesc or longdesc or hidden_sibling or len(path) > 1,
             ["c13:depth-%d" % len(path)] + (["c13:no-description"] if nodesc else []) + (["c13:hidden-sibling"] if hidden_sibling else []))

    def fail(clause, expected, observed, sig=None, exc=None):
        ctx.fail("page", clause, case, expected, observed, sig=sig, exc=exc)

    try:
        page = render_direct(app, path, width, ansi)
        again = render_direct(app, path, width, ansi)
        # the same application object at another width / the other decoration in between: the page depends on the
        # configuration, the width and the decoration only, not on what was rendered before
        render_direct(app, path, 40 + (width + 37) % 160, not ansi)
        render_direct(app, (), width, ansi)
        back = render_direct(app, path, width, ansi)
    except Exception as e:
        fail("C13.renders", "the page renders", None, exc=e)
        return
    if page != again:
        fail("C13.idempotent", page, again)
    if page != back:
        fail("C13.idempotent", page, back, sig="after-other-renderings")
    text = markup.strip_sgr(page)
    if not ansi and "\x1b" in page:
        fail("C13.renders", "no escape byte on a plain output", page, sig="escape")
    for line in text.split("\n"):
        if len(line) > width:
            fail("C13.width", "<= %d columns" % width, {"len": len(line), "line": line}, sig="width")
            break
    # completeness
    if node is None:
        for c in gen_tree.top_commands(tree, "default"):
            listed = word_in(c["name"], text.split("AVAILABLE COMMANDS")[-1]) if "AVAILABLE COMMANDS" in text else False
            should = gen_tree.is_enabled(c) and gen_tree.is_named(c) and not gen_tree.is_hidden(c)
            if should and not listed:
                fail("C13.complete", "command %s listed" % c["name"], text, sig="command-missing")
            if not should and word_in(c["name"], text):
                fail("C13.hidden", "command %s not shown" % c["name"], text, sig="hidden-command")
        opts = gen_tree.DEFAULT_APP_OPTIONS
        args = []
    else:
        usage = text.split("ARGUMENTS")[0].split("COMMANDS")[0].split("OPTIONS")[0]
        hidden_default_standin = [s["name"] for s in node["subs"] if gen_tree.is_enabled(s) and gen_tree.is_default(s)
                                  and gen_tree.is_hidden(s)]
        for s in node["subs"]:
            should = gen_tree.is_enabled(s) and gen_tree.is_named(s) and not gen_tree.is_hidden(s)
            if should and not word_in(s["name"], text):
                fail("C13.complete", "sub-command %s listed" % s["name"], text, sig="command-missing")
            if not gen_tree.is_enabled(s) and word_in(s["name"], text):
                fail("C13.hidden", "disabled sub-command %s not shown" % s["name"], text, sig="disabled-command")
            if gen_tree.is_enabled(s) and gen_tree.is_hidden(s) and s["name"] not in hidden_default_standin \
                    and word_in(s["name"], text):
                fail("C13.hidden", "hidden sub-command %s not shown" % s["name"], text, sig="hidden-command")
            if should:
                # a listed sub-command shows its own arguments and options
                for a in s["args"]:
                    if (L + a["name"]) not in text.replace(L + a["name"] + "1", L + a["name"]):
                        fail("C13.complete", "argument %s of sub-command %s" % (a["name"], s["name"]), text,
                             sig="style-tag-name" if a["name"] in markup.REGISTERED else "sub-argument")
        opts = list(gen_tree.DEFAULT_APP_OPTIONS)
        args = []
        for n in range(len(path)):
            nd = gen_tree.node_at(tree, "default", path[: n + 1])
            opts += nd["opts"]
            args += nd["args"]
    for a in args:
        if (L + a["name"] + G) not in text:
            fail("C13.complete", "argument %s%s%s" % (L, a["name"], G), text,
                 sig="style-tag-name" if a["name"] in markup.REGISTERED else "argument-missing")
    for o in opts:
        pref, alt = option_labels(o)
        if not re.search(r"(?<![\w-])" + re.escape(pref) + r"(?![\w-])", text):
            fail("C13.complete", "option %s" % pref, text, sig="option-missing")
        elif alt and ("(%s)" % alt) not in text:
            fail("C13.complete", "alternative name (%s)" % alt, text, sig="alternative-missing")
    # through run(): 'help <path>' == '<path> --help' == '<path> -h' == the page of the selected command
    if case.get("via_run") and (node is None or all(gen_tree.is_named(gen_tree.node_at(tree, "default", path[: n + 1]))
                                                     and gen_tree.is_enabled(gen_tree.node_at(tree, "default", path[: n + 1]))
                                                     for n in range(len(path)))):
        tokens = list(path)
        sel = gen_tree.resolve_model(tree, "default", tokens, c03.parsable_fn(app, tokens)) if path else ("command", [])
        want = render_direct(app, sel[1], width, ansi) if sel[0] == "command" and sel[1] != ["help"] else None
        outs = {}
        for label, toks in (("help-command", ["help"] + tokens), ("long-switch", tokens + ["--help"]), ("short-switch", tokens + ["-h"])):
            try:
                status, out, err = run_line(app, toks, ansi)
            except Exception as e:
                fail("C13.same-page", "run returns", label, exc=e)
                return
            outs[label] = out
            if status != 0:
                fail("C13.same-page", 0, {"variant": label, "status": status, "out": out, "err": err}, sig="status")
                return
            if rec.calls:
                fail("C13.same-page", "no handler runs", rec.calls, sig="handler")
        if len(set(outs.values())) != 1:
            fail("C13.same-page", outs["help-command"], outs, sig="differs")
        elif want is not None and outs["help-command"] != want:
            fail("C13.same-page", want, outs["help-command"], sig="not-the-selected-page")


PARTS = {"page": check_page}


@st.composite
def page_case(draw):
    tree = draw(gen_tree.tree_st(typed=True, descriptions=True, unique_names=True, tag_names=True))
    paths = [[]] + [p for p in gen_tree.all_paths(tree, "default") if p != ["help"]]
    path = draw(st.sampled_from(paths))
    need = min_width(tree, path)
    width = draw(st.one_of(st.just(need), st.integers(need, need + 3), st.integers(max(40, need), 200)))
    case = {"tree": tree, "path": path, "width": width, "ansi": draw(st.booleans()), "via_run": draw(st.booleans())}
    if not path and draw(st.booleans()):
        # the first line of the application page: display name and version of any length
        case["display"] = draw(st.sampled_from([None, "Tool", "The Acme Deployment And Provisioning Console For Everything"]))
        case["version"] = draw(st.sampled_from([None, "1.0", "2.14.0-rc.3+build.20240117.deadbeef.cafebabe.0123456789"]))
        case["app_help"] = draw(st.sampled_from([None, "Short help.", "Help of {script_name}: " + "many words " * 30
                                                 + "\n\nSecond paragraph with {{doubled braces}} and 100% signs."]))
    return case


HYP = {"page": (lambda ctx: page_case(), check_page)}

def run(ctx):
    quick = ctx.tier == "quick"
    ctx.hyp_sharded("page", 6000 if quick else 60000, salt=1)
