"""C18 - questions return only valid answers, count attempts exactly and terminate."""
import itertools
import re

from hypothesis import strategies as st

from vf.guard import NonTermination, run_guarded

LEVEL = "exploration"
RULE = (
    "exhaustive: for 4 fixed choice lists (plain, case-differing + spaced, numeric-looking, duplicated) x single / "
    "multi-select x default {none, index, index string / index list} x attempts {unlimited, 1, 2, 3}: every answer "
    "script of up to 3 lines (thorough 4) over the 15-entry answer alphabet {empty, index, spaced index, +1, -1, out "
    "of range, value, other case, ambiguous / duplicated value, 'a,b', '0, 2', 'a,,b', garbage, last index, second "
    "value}, each ending in end of input; Hypothesis: generated choice lists (1-5 entries) and scripts; re-ask: ONE "
    "question object asked 2-3 times, each ask on a fresh I/O with its own generated script and judged like a first "
    "ask (non-trivial there: a finite limit and an earlier ask that needed a retry); confirmation: "
    "patterns x defaults x answers; every kind also on a non-interactive input. The input is a scripted stream "
    "with a read budget, the error output counts prompt writes. Non-trivial: a script with an invalid line followed "
    "by a valid one, a script that runs into end of input, or a multi-select answer. Enumerated dialogues are "
    "distinct by construction."
)
ASSUMPTIONS = [
    "no 'stty' is reachable: Question._has_stty_available is patched to return False (line-reading path)",
    "defaults are given in the documented form only (index or index string; comma-separated index string for multi-select)",
    "an empty line without a default is an invalid entry; the last error of an exhausted question is raised, the others are printed",
    "termination is decided by a read budget (50 reads) and a prompt-write budget (400 writes), never by wall clock",
]

ANSWERS = ["", "0", " 1 ", "+1", "-1", "7", "a", "A", "dup", "a,b", "0, 2", "a,,b", "?!", "2", "b"]
CHOICE_LISTS = [["a", "b", "c"], ["a", "A", "a b"], ["1", "0", "-1"], ["dup", "b", "dup"]]


class Budget(BaseException):
    pass


class ScriptedInput(object):
    def __init__(self, lines, budget=50):
        self.lines = list(lines)
        self.reads = 0
        self.budget = budget
        self.closed = False

    def read_line(self, length=None):
        self.reads += 1
        if self.reads > self.budget:
            raise Budget("read budget exceeded")
        if self.lines:
            return self.lines.pop(0) + "\n"
        return ""

    def read(self, length):
        raise AssertionError("character-wise reading is not expected (no stty)")

    def close(self):
        self.closed = True

    def is_closed(self):
        return self.closed


class CountingStream(object):
    def __init__(self, budget=400):
        self.chunks = []
        self.budget = budget

    def write(self, s):
        self.chunks.append(s)
        if len(self.chunks) > self.budget:
            raise Budget("prompt-write budget exceeded")

    def fetch(self):
        return "".join(self.chunks)

    def flush(self):
        pass

    def supports_ansi(self):
        return False

    def supports_utf8(self):
        return True

    def close(self):
        pass

    def is_closed(self):
        return False


def make_io(script, interactive=True):
    from clikit.api.io import IO, Input, Output
    from clikit.formatter import AnsiFormatter

    inp = ScriptedInput(script)
    out, err = CountingStream(), CountingStream()
    io = IO(Input(inp), Output(out, AnsiFormatter(forced=True)), Output(err, AnsiFormatter(forced=True)))
    io.set_interactive(interactive)
    return io, inp, out, err


# ------------------------------------------------------------------------------------- model
MULTI_RE = re.compile(r"[a-zA-Z0-9_-]+(?:,[a-zA-Z0-9_-]+)*\Z")


def model_validate(choices, multi, raw):
    """Returns ('ok', value) or ('invalid',)."""
    if raw is None:
        return ("invalid",)
    if isinstance(raw, int):
        raw = str(raw)
    collapsed = raw.replace(" ", "")
    if multi:
        if not MULTI_RE.match(collapsed):
            return ("invalid",)
        values = collapsed.split(",")
    else:
        values = [raw]
    out = []
    for v in values:
        idx = [i for i, c in enumerate(choices) if c == v]
        if len(idx) > 1:
            return ("invalid",)
        if idx:
            out.append(choices[idx[0]])
            continue
        try:
            n = int(v)
        except ValueError:
            return ("invalid",)
        if not 0 <= n < len(choices):
            return ("invalid",)
        out.append(choices[n])
    return ("ok", out if multi else out[0])


def model_dialogue(choices, multi, default, attempts, script):
    """Returns (outcome, reads, invalid entries) with outcome ('ok', value) | ('aborted',) | ('exhausted',)."""
    reads = 0
    invalid = 0
    left = attempts
    lines = list(script)
    while left is None or left:
        reads += 1
        if not lines:
            return ("aborted",), reads, invalid
        line = lines.pop(0).strip()
        value = line if line != "" else default
        r = model_validate(choices, multi, value)
        if r[0] == "ok":
            return r, reads, invalid
        invalid += 1
        if left is not None:
            left -= 1
    return ("exhausted",), reads, invalid


def check_choice(ctx, case, by_construction=False):
    from clikit.ui.components import ChoiceQuestion
    from clikit.ui.components.question import Question

    Question._has_stty_available = lambda self: False
    choices, multi, default, attempts, script = case["choices"], case["multi"], case["default"], case["attempts"], case["script"]
    want, want_reads, want_invalid = model_dialogue(choices, multi, default, attempts, script)
    nt = multi or want[0] == "aborted" or (want[0] == "ok" and want_invalid > 0)
    ctx.case("choice", case, nt, ["c18:" + want[0]], distinct_by_construction=by_construction)
    q = ChoiceQuestion("pick one", list(choices), default)
    q.set_multi_select(multi)
    q.set_max_attempts(attempts)
    if case.get("error_message"):
        q.set_error_message(case["error_message"])
    ask_and_judge(ctx, "choice", case, q, script)


def check_reask(ctx, case):
    """ONE question object asked several times, each time on a fresh I/O with its own script: every ask is judged
    by the same dialogue model as a first ask (the attempt limit is a property of the question, not a budget
    shared by its asks)."""
    from clikit.ui.components import ChoiceQuestion
    from clikit.ui.components.question import Question

    Question._has_stty_available = lambda self: False
    choices, multi, default, attempts = case["choices"], case["multi"], case["default"], case["attempts"]
    outcomes = [model_dialogue(choices, multi, default, attempts, sc) for sc in case["scripts"]]
    retried_before = any(o[2] > 0 for o in outcomes[:-1])
    ctx.case("re-ask", case, retried_before and attempts is not None,
             ["c18:reask-after-" + o[0][0] + ("-with-retry" if o[2] else "") for o in outcomes[:-1]])
    q = ChoiceQuestion("pick one", list(choices), default)
    q.set_multi_select(multi)
    q.set_max_attempts(attempts)
    if case.get("error_message"):
        q.set_error_message(case["error_message"])
    for i, script in enumerate(case["scripts"]):
        if not ask_and_judge(ctx, "re-ask", case, q, script, "ask-%d" % i):
            return
        if q.max_attempts != attempts:
            ctx.fail("re-ask", "C18.attempts", case, {"configured limit": attempts},
                     {"after": "ask-%d" % i, "max_attempts": q.max_attempts}, sig="limit-changed")
            return


def ask_and_judge(ctx, part, case, q, script, label="ask"):
    """Ask q on a fresh I/O fed with script and compare with the dialogue model. Returns False after a failure."""
    choices, multi, default, attempts = case["choices"], case["multi"], case["default"], case["attempts"]
    want, want_reads, want_invalid = model_dialogue(choices, multi, default, attempts, script)
    io, inp, out, err = make_io(script)

    def fail(clause, expected, observed, sig=None, exc=None):
        if label != "ask":
            observed = {"at": label, "script": script, "observed": observed}
        ctx.fail(part, clause, case, expected, observed, sig=sig, exc=exc)

    def ask():
        try:
            return ("ok", q.ask(io))
        except Budget as e:
            return ("budget", str(e))
        except Exception as e:
            return ("raised", e)

    try:
        got = run_guarded(ask, (), wall=10.0, steps=2000000)
    except NonTermination as e:
        fail("C18.terminates", "the question ends", str(e), sig="non-termination")
        return False
    errors_printed = err.fetch().count("\x1b[31;1m")
    if case.get("error_message") and '" is invalid' in err.fetch():
        # (ambiguous entries and a missing value have messages of their own; an entry that is simply no choice is
        # reported with the configured message, never with the built-in one)
        fail("C18.attempts", "the configured error message replaces the built-in one", err.fetch(), sig="error-message")
        return False
    if got[0] == "budget":
        fail("C18.terminates", list(want), got[1], sig="asks-forever")
        return False
    if got[0] == "ok":
        val = got[1]
        members = val if isinstance(val, list) else [val]
        if multi != isinstance(val, list) or any(m not in choices for m in members):
            fail("C18.member", "a member of %r" % (choices,), repr(val), sig="member")
            return False
        if want[0] != "ok" or val != want[1]:
            fail("C18.same-as-model", list(want), ["ok", val], sig="answer")
            return False
        if errors_printed != want_invalid:
            fail("C18.attempts", "%d errors printed" % want_invalid, errors_printed, sig="errors-printed")
    else:
        exc = got[1]
        if want[0] == "ok":
            fail("C18.same-as-model", list(want), "raised", exc=exc)
            return False
        if want[0] == "aborted":
            if not (isinstance(exc, RuntimeError) and "Aborted" in str(exc)):
                fail("C18.terminates", "gives up with 'Aborted' at end of input", repr(exc), sig="abort-error")
                return False
            if errors_printed != want_invalid:
                fail("C18.attempts", "%d errors printed" % want_invalid, errors_printed, sig="errors-printed")
        else:
            # exhausted: exactly N invalid entries, N-1 printed, the last one raised
            if errors_printed != want_invalid - 1:
                fail("C18.attempts", "%d errors printed + 1 raised" % (want_invalid - 1), errors_printed,
                     sig="errors-printed")
    if inp.reads != want_reads:
        fail("C18.same-as-model" if want[0] != "aborted" else "C18.terminates",
             "%d lines read" % want_reads, inp.reads, sig="reads")
    if out.fetch():
        fail("C18.same-as-model", "nothing on the standard output", out.fetch(), sig="stdout")
    return True


def check_index_value(ctx, case):
    """An index and the value it denotes are interchangeable (lists without numeric-looking or duplicated entries)."""
    from clikit.ui.components import ChoiceQuestion
    from clikit.ui.components.question import Question

    Question._has_stty_available = lambda self: False
    choices, i = case["choices"], case["index"]
    ctx.case("index-value", case, True)
    res = []
    for answer in (str(i), choices[i]):
        io, inp, out, err = make_io([answer])
        q = ChoiceQuestion("pick", list(choices))
        q.set_max_attempts(1)
        try:
            res.append(q.ask(io))
        except Exception as e:
            ctx.fail("index-value", "C18.index-value", case, choices[i], answer, exc=e)
            return
    if res[0] != res[1] or res[0] != choices[i]:
        ctx.fail("index-value", "C18.index-value", case, choices[i], res)


def check_confirm(ctx, case, by_construction=False):
    from clikit.ui.components import ConfirmationQuestion

    pattern, default, answer, interactive = case["pattern"], case["default"], case["answer"], case["interactive"]
    ctx.case("confirm", case, answer is None or not interactive, distinct_by_construction=by_construction)
    script = [] if answer is None else [answer]
    io, inp, out, err = make_io(script, interactive)
    q = ConfirmationQuestion("sure?", default, pattern)
    try:
        got = ("ok", q.ask(io))
    except Budget as e:
        ctx.fail("confirm", "C18.terminates", case, "ends", str(e), sig="asks-forever")
        return
    except Exception as e:
        got = ("raised", e)
    if not interactive:
        if got != ("ok", default) or inp.reads or err.fetch() or out.fetch():
            ctx.fail("confirm", "C18.non-interactive", case, {"answer": default, "reads": 0, "written": ""},
                     {"got": repr(got), "reads": inp.reads, "written": err.fetch() + out.fetch()})
        return
    if answer is None:
        if not (got[0] == "raised" and isinstance(got[1], RuntimeError) and "Aborted" in str(got[1])):
            ctx.fail("confirm", "C18.terminates", case, "gives up with 'Aborted' at end of input", repr(got), sig="abort-error")
        return
    stripped = answer.strip()
    want = default if stripped == "" else (re.match(pattern, stripped) is not None)
    if got[0] != "ok" or got[1] is not want:
        ctx.fail("confirm", "C18.confirm", case, want, repr(got), sig="answer")
    if inp.reads != 1:
        ctx.fail("confirm", "C18.confirm", case, "1 line read", inp.reads, sig="reads")


def check_non_interactive(ctx, case, by_construction=False):
    from clikit.ui.components import ChoiceQuestion
    from clikit.ui.components.question import Question

    Question._has_stty_available = lambda self: False
    ctx.case("non-interactive", case, True, distinct_by_construction=by_construction)
    via = case.get("via", "io")
    if via == "io":
        io, inp, out, err = make_io(["a", "b"], interactive=False)
    else:
        # interaction is switched off on the shared input after the I/O was already asked about it once
        io, inp, out, err = make_io(["a", "b"], interactive=True)
        if via == "section-after-query":
            parent, io = io, io.section()
            io.is_interactive()
            parent.set_interactive(False)
        else:
            io.is_interactive()
            io.input.set_interactive(False)
        if io.is_interactive():
            ctx.fail("non-interactive", "C18.non-interactive", case, "is_interactive() false", True, sig="is-interactive-" + via)
            return
    if case["kind"] == "choice":
        q = ChoiceQuestion("pick", list(case["choices"]), case["default"])
        q.set_multi_select(case["multi"])
    else:
        q = Question("name?", case["default"])
    try:
        got = q.ask(io)
    except BaseException as e:
        ctx.fail("non-interactive", "C18.non-interactive", case, case["default"], None, exc=e)
        return
    if got != case["default"] or inp.reads or err.fetch() or out.fetch():
        ctx.fail("non-interactive", "C18.non-interactive", case, {"answer": case["default"], "reads": 0, "written": ""},
                 {"got": repr(got), "reads": inp.reads, "written": err.fetch() + out.fetch()})


PARTS = {"choice": check_choice, "re-ask": check_reask, "index-value": check_index_value, "confirm": check_confirm,
         "non-interactive": check_non_interactive}


def defaults_for(choices, multi):
    if multi:
        return [None, "0", "0,%d" % (len(choices) - 1)]
    return [None, 0, str(len(choices) - 1)]


def shard_choice(ctx, arg):
    ci, multi, maxlen, di, att = arg
    choices = CHOICE_LISTS[ci]
    for default in [defaults_for(choices, multi)[di]]:
        for attempts in (att,):
            for n in range(0, maxlen + 1):
                for script in itertools.product(ANSWERS, repeat=n):
                    check_choice(ctx, {"choices": choices, "multi": multi, "default": default, "attempts": attempts,
                                       "script": list(script)}, True)


def random_choice_case():
    entry = st.sampled_from(["a", "b", "A", "a b", "1", "0", "-1", "x,y", "c", "2", "yes", "é"])
    choices = st.lists(entry, min_size=1, max_size=5)

    @st.composite
    def case(draw):
        ch = draw(choices)
        multi = draw(st.booleans())
        default = draw(st.sampled_from(defaults_for(ch, multi)))
        answers = ANSWERS + ch + [str(i) for i in range(len(ch))] + [",".join(ch[:2]), " , ".join(ch[:2])]
        script = draw(st.lists(st.sampled_from(answers), max_size=5))
        c = {"choices": ch, "multi": multi, "default": default, "attempts": draw(st.sampled_from([None, 1, 2, 3])),
             "script": script}
        if draw(st.integers(0, 3)) == 0:
            c["error_message"] = "Nope, not {} here"
        return c

    return case()


def reask_case():
    @st.composite
    def case(draw):
        c = draw(random_choice_case())
        ch = c["choices"]
        answers = ANSWERS + ch + [str(i) for i in range(len(ch))] + [",".join(ch[:2])]
        scripts = [c.pop("script")] + [draw(st.lists(st.sampled_from(answers), max_size=5)) for _ in range(draw(st.integers(1, 2)))]
        c["scripts"] = scripts
        c["attempts"] = draw(st.sampled_from([None, 1, 2, 3, 3]))
        return c

    return case()


HYP = {"choice": (lambda ctx: random_choice_case(), check_choice), "re-ask": (lambda ctx: reask_case(), check_reask)}

def run(ctx):
    quick = ctx.tier == "quick"
    maxlen = 3 if quick else 4
    ctx.parallel("shard_choice", [(ci, multi, maxlen, d, a) for ci in range(len(CHOICE_LISTS)) for multi in (False, True)
                                  for d in range(3) for a in (None, 1, 2, 3)])
    ctx.exhaustive("choice", True, "4 choice lists x single/multi x 3 defaults x 4 attempt limits x all scripts up to length %d" % maxlen)
    ctx.hyp_sharded("choice", 4000 if quick else 60000, salt=1)
    ctx.hyp_sharded("re-ask", 4000 if quick else 60000, salt=2)
    for ch in (["a", "b", "c"], ["alpha", "beta"], ["x"], ["a b", "c-d", "e_f"]):
        for i in range(len(ch)):
            check_index_value(ctx, {"choices": ch, "index": i})
    for pattern in ("(?i)^y", "^o", "^y", "^[a-z]+$", "^Y"):
        for default in (True, False):
            for answer in (None, "", "y", "Y", "yes", "YES", "n", "N", "no", "o", "O", "oui", "OUI", " y ", "yn", "maybe", "0", "true"):
                for interactive in (True, False):
                    check_confirm(ctx, {"pattern": pattern, "default": default, "answer": answer, "interactive": interactive}, True)
    ctx.exhaustive("confirm", True, "5 patterns (case-insensitive and case-sensitive) x 2 defaults x 18 answers x interactive on/off")
    for ch in CHOICE_LISTS:
        for multi in (False, True):
            for default in defaults_for(ch, multi):
                for via in ("io", "input-after-query", "section-after-query"):
                    check_non_interactive(ctx, {"kind": "choice", "choices": ch, "multi": multi, "default": default, "via": via}, True)
    for default in (None, "x", 5):
        for via in ("io", "input-after-query", "section-after-query"):
            check_non_interactive(ctx, {"kind": "plain", "default": default, "via": via}, True)
    ctx.exhaustive("non-interactive", True, "choice lists x modes x defaults, plain questions")
