"""C10 - quiet and verbosity gate every write path identically."""
import inspect

LEVEL = "exploration"
RULE = (
    "complete table: every public method with a 'flags' parameter found by reflection on IO, Output, SectionOutput "
    "(and the IO subclasses BufferedIO / ConsoleIO over buffered streams), plus the flag-less section writers clear / "
    "overwrite, x object kind {output, error output, section of output, IO, IO.section()} x formatter {plain, forced "
    "ANSI} x verbosity {NORMAL, VERBOSE, VERY_VERBOSE, DEBUG} x flags {None, 0..7} x quiet {off, on}; each cell on "
    "fresh objects with a unique marker text. Non-trivial: flags with >= 2 bits, or quiet on, or a section / IO-level "
    "entry point. section-history: two sections of one output, every history of three write_line calls over section x "
    "flags x quiet x verbosity: a marker is in the stream iff the gate was open when it was written. setter-history: every "
    "sequence of 1-4 set_quiet / set_verbosity calls on one object, then a write with every flag word, judged by the final "
    "settings only. Every cell / "
    "history is a distinct case by construction."
)
ASSUMPTIONS = [
    "quiet and verbosity are set on the object under test itself (sections do not inherit them from their parent, "
    "which the statement does not require)",
    "NullIO is not observed (its streams discard everything by design)",
]

VERBOSITIES = [0, 1, 2, 4]
FLAGS = [None, 0, 1, 2, 3, 4, 5, 6, 7]


def expected_open(verbosity, flags, quiet):
    if quiet:
        return False
    f = flags or 0
    for bit in (1, 2, 4):
        if f & bit:
            return verbosity >= bit
    return True


def make_formatter(kind):
    from clikit.formatter import AnsiFormatter, PlainFormatter

    return AnsiFormatter(forced=True) if kind == "ansi" else PlainFormatter()


def reflect():
    """{object kind: [method names]} found by reflection."""
    from clikit.api.io import IO, Output
    from clikit.api.io.section_output import SectionOutput

    def flagged(cls):
        out = []
        for name, fn in inspect.getmembers(cls, callable):
            if name.startswith("_"):
                continue
            try:
                params = inspect.signature(fn).parameters
            except (TypeError, ValueError):
                continue
            if "flags" in params:
                out.append(name)
        return sorted(out)

    return {"Output": flagged(Output), "SectionOutput": flagged(SectionOutput), "IO": flagged(IO)}


def build(kind, fmt_kind):
    """Returns (object under test, {'out': stream, 'err': stream})."""
    from clikit.api.io import Input, Output
    from clikit.io import BufferedIO, ConsoleIO
    from clikit.io.input_stream import StringInputStream
    from clikit.io.output_stream import BufferedOutputStream

    fmt = make_formatter(fmt_kind)
    if kind in ("output", "output-section"):
        s = BufferedOutputStream()
        o = Output(s, fmt)
        if kind == "output-section":
            o = o.section()
        return o, {"out": s, "err": None}
    if kind in ("buffered-io", "buffered-io-section", "buffered-io-error-output", "buffered-io-output"):
        io = BufferedIO("", fmt)
        streams = {"out": io.output.stream, "err": io.error_output.stream}
        if kind == "buffered-io-section":
            io = io.section()
            # BufferedIO.section() builds a fresh BufferedIO and swaps the outputs in: same streams
        if kind == "buffered-io-error-output":
            return io.error_output, {"out": streams["err"], "err": streams["out"]}
        if kind == "buffered-io-output":
            return io.output, streams
        return io, streams
    if kind in ("console-io", "console-io-section"):
        so, se = BufferedOutputStream(), BufferedOutputStream()
        io = ConsoleIO(Input(StringInputStream("")), Output(so, fmt), Output(se, fmt))
        if kind == "console-io-section":
            io = io.section()
        return io, {"out": so, "err": se}
    raise ValueError(kind)


KINDS = {
    "output": "Output",
    "output-section": "SectionOutput",
    "buffered-io-output": "Output",
    "buffered-io-error-output": "Output",
    "buffered-io": "IO",
    "buffered-io-section": "IO",
    "console-io": "IO",
    "console-io-section": "IO",
}
_counter = [0]


def check_cell(ctx, case, by_construction=False):
    kind, method, fmt_kind = case["kind"], case["method"], case["formatter"]
    verbosity, flags, quiet = case["verbosity"], case["flags"], case["quiet"]
    nt = (flags is not None and bin(flags).count("1") >= 2) or quiet or "section" in kind or "io" in kind
    ctx.case("gate", case, nt, distinct_by_construction=by_construction)
    obj, streams = build(kind, fmt_kind)
    _counter[0] += 1
    marker = "MK%dX" % _counter[0]
    text_kind = case.get("text", "marker")
    if text_kind != "marker":
        # degenerate texts: the gate applies to them like to any other text
        marker = {"empty": "", "newline": "\n", "blank": "  "}[text_kind]
    target = "err" if method.startswith("error") else "out"
    if method in ("clear", "overwrite"):
        # needs existing content: written with the gate open
        obj.set_verbosity(4)
        obj.write_line("old content")
    obj.set_verbosity(verbosity)
    obj.set_quiet(quiet)
    if case.get("indent"):
        obj.indent(case["indent"])  # the gate does not depend on the indentation in force
    before = {k: (s.fetch() if s is not None else None) for k, s in streams.items()}
    try:
        if method == "clear":
            obj.clear()
        elif method == "overwrite":
            obj.overwrite(marker)
        else:
            getattr(obj, method)(marker, flags=flags)
    except Exception as e:
        ctx.fail("gate", "C10.gate", case, "call returns", None, exc=e)
        return
    after = {k: (s.fetch() if s is not None else None) for k, s in streams.items()}
    if method in ("clear", "overwrite"):
        want = not quiet
    else:
        want = expected_open(verbosity, flags, quiet)
    other = "out" if target == "err" else "err"
    if after[other] != before[other]:
        ctx.fail("gate", "C10.nothing-else", case, "other stream untouched", after[other], sig="other-stream")
    if method == "clear":
        changed = after[target] != before[target]
        if quiet and changed:
            ctx.fail("gate", "C10.gate", case, "nothing written when quiet", after[target][len(before[target]):], sig="clear")
        return
    if text_kind != "marker":
        changed = after[target] != before[target]
        must_change = want and (text_kind != "empty" or "line" in method or method == "overwrite")
        if changed and not want:
            ctx.fail("gate", "C10.gate", case, "nothing written", after[target][len(before[target]):],
                     sig=("%s.%s:%s-text" % (KINDS[kind], method, text_kind)))
        elif must_change and not changed:
            ctx.fail("gate", "C10.gate", case, "the text / line break is written", "stream unchanged",
                     sig=("%s.%s:%s-text" % (KINDS[kind], method, text_kind)))
        return
    present = marker in (after[target] or "")
    if present != want:
        ctx.fail("gate", "C10.gate", case, "written" if want else "not written",
                 "written" if present else "not written", sig=("%s.%s" % (KINDS[kind], method)))
    if not want and after[target] != before[target]:
        ctx.fail("gate", "C10.nothing-else", case, "stream unchanged", after[target][len(before[target]):],
                 sig=("%s.%s" % (KINDS[kind], method)))


def check_section_history(ctx, case, by_construction=False):
    """Several sections of one output, a history of writes with changing quiet / verbosity: a marker is in the
    stream iff the gate was open when it was written - a closed write must not surface later (e.g. when another
    section redraws)."""
    from clikit.api.io import Output
    from clikit.io.output_stream import BufferedOutputStream

    ctx.case("section-history", case, True, distinct_by_construction=by_construction)
    stream = BufferedOutputStream()
    out = Output(stream, make_formatter(case["formatter"]))
    sections = [out.section() for _ in range(case["sections"])]
    written = []  # (marker, open?)
    for i, (si, flags, quiet, verbosity) in enumerate(case["steps"]):
        sec = sections[si]
        sec.set_quiet(bool(quiet))
        sec.set_verbosity(verbosity)
        marker = "MK%dX" % i
        before = stream.fetch()
        try:
            sec.write_line(marker, flags)
        except Exception as e:
            ctx.fail("section-history", "C10.gate", case, "write_line returns", {"step": i}, exc=e)
            return
        written.append((marker, expected_open(verbosity, flags, bool(quiet))))
        data = stream.fetch()
        if not written[-1][1] and data != before:
            # a write that the gate closes emits nothing at all - no text, no cursor movement, no redraw of other sections
            ctx.fail("section-history", "C10.nothing-else", case, "stream unchanged by a closed write",
                     {"step": i, "emitted": data[len(before):]}, sig="section-history-closed-write-emits")
            return
        for m, was_open in written:
            if (m in data) != was_open:
                ctx.fail("section-history", "C10.gate" if was_open else "C10.nothing-else", case,
                         {m: "in the stream" if was_open else "never in the stream"}, {"after_step": i, "stream": data},
                         sig="section-history-" + ("lost" if was_open else "leaked"))
                return


def shard_section_history(ctx, arg):
    import itertools

    fmt_kind, first = arg
    options = [(si, fl, q, v) for si in (0, 1) for fl in (None, 1, 4) for q in (0, 1) for v in (0, 4)]
    for rest in itertools.product(options, repeat=2):
        check_section_history(ctx, {"formatter": fmt_kind, "sections": 2, "steps": [list(first)] + [list(r) for r in rest]}, True)


SETTERS = [("quiet", True), ("quiet", False), ("verbosity", 0), ("verbosity", 1), ("verbosity", 2), ("verbosity", 4),
           ("stream", "buffer"), ("stream", "null"), ("formatter", "plain"), ("formatter", "ansi")]


def check_setter_history(ctx, case, by_construction=False):
    """The gate depends on the CURRENT quiet / verbosity settings only, whatever sequence of setter calls led there."""
    kind, fmt_kind, seq = case["kind"], case["formatter"], case["setters"]
    ctx.case("setter-history", case, True, distinct_by_construction=by_construction)
    from clikit.io.output_stream import BufferedOutputStream, NullOutputStream

    if kind == "output-from-null":
        # an output that starts on a stream which discards everything and is redirected later
        from clikit.api.io import Output

        obj, streams = Output(NullOutputStream(), make_formatter(fmt_kind)), {"out": None, "err": None}
    else:
        obj, streams = build(kind, fmt_kind)
    current = streams["out"]  # the stream the standard output writes to at the moment (None: a null stream)
    retired = []
    quiet, verbosity = False, 0
    for name, value in seq:
        if name == "quiet":
            obj.set_quiet(value)
            quiet = value
        elif name == "formatter":
            # replacing the formatter changes the look, never the gate
            (obj if hasattr(obj, "set_stream") else obj.output).set_formatter(make_formatter(value))
        elif name == "stream":
            target = obj if hasattr(obj, "set_stream") else obj.output
            if current is not None:
                retired.append(current)
            current = BufferedOutputStream() if value == "buffer" else None
            target.set_stream(current if current is not None else NullOutputStream())
        else:
            obj.set_verbosity(value)
            verbosity = value
    if bool(obj.is_quiet()) != quiet or obj.verbosity != verbosity:
        ctx.fail("setter-history", "C10.gate", case, [quiet, verbosity], [obj.is_quiet(), obj.verbosity], sig="reported-state")
        return
    for flags in FLAGS:
        _counter[0] += 1
        marker = "MK%dX" % _counter[0]
        method = "write_line"
        try:
            getattr(obj, method)(marker, flags=flags)
        except Exception as e:
            ctx.fail("setter-history", "C10.gate", case, "write_line returns", {"flags": flags}, exc=e)
            return
        present = current is not None and marker in current.fetch()
        want = expected_open(verbosity, flags, quiet) and current is not None
        if any(marker in r.fetch() for r in retired):
            ctx.fail("setter-history", "C10.nothing-else", case, "nothing reaches a stream that was replaced",
                     {"flags": flags}, sig="setter-history-retired-stream")
            return
        if present != want:
            ctx.fail("setter-history", "C10.gate" if want else "C10.nothing-else", case,
                     {"flags": flags, "quiet": quiet, "verbosity": verbosity, "written": want}, {"written": present},
                     sig="setter-history-" + ("lost" if want else "leaked"))
            return


def shard_setter_history(ctx, arg):
    import itertools

    kind, fmt_kind, first = arg
    for n in (0, 1, 2, 3):
        for rest in itertools.product(SETTERS, repeat=n):
            check_setter_history(ctx, {"kind": kind, "formatter": fmt_kind, "setters": [list(first)] + [list(r) for r in rest]}, True)


PARTS = {"gate": check_cell, "section-history": check_section_history, "setter-history": check_setter_history}


def cells():
    refl = reflect()
    for kind, cls in KINDS.items():
        methods = list(refl[cls])
        if kind == "output-section":
            methods += ["clear", "overwrite"]
        for method in methods:
            for fmt_kind in ("plain", "ansi"):
                for verbosity in VERBOSITIES:
                    for quiet in (False, True):
                        fl = [None] if method in ("clear", "overwrite") else FLAGS
                        for flags in fl:
                            yield {"kind": kind, "method": method, "formatter": fmt_kind, "verbosity": verbosity,
                                   "flags": flags, "quiet": quiet}
                            if method not in ("clear", "overwrite"):
                                yield {"kind": kind, "method": method, "formatter": fmt_kind, "verbosity": verbosity,
                                       "flags": flags, "quiet": quiet, "indent": 3}
                            if method != "clear":
                                for text in ("empty", "newline", "blank"):
                                    yield {"kind": kind, "method": method, "formatter": fmt_kind, "verbosity": verbosity,
                                           "flags": flags, "quiet": quiet, "text": text}


def run(ctx):
    from vf.runner import HarnessError

    refl = reflect()
    known = {"write", "write_line", "write_raw", "write_line_raw", "error", "error_line", "error_raw", "error_line_raw"}
    for cls, names in refl.items():
        if not names:
            raise HarnessError("reflection found no flagged writers on %s" % cls)
        for n in names:
            if not (n.startswith("write") or n.startswith("error")):
                raise HarnessError("reflected writer %s.%s has no stream mapping in the harness" % (cls, n))
            if n not in known:
                ctx.note("new entry point exercised generically: %s.%s" % (cls, n))
    ctx.note("reflected entry points: %r" % (refl,))
    table = {}
    for c in cells():
        check_cell(ctx, c, by_construction=True)
    ctx.exhaustive("gate", True, "object kinds x reflected methods x formatter x verbosity x flags x quiet x text {unique marker, empty, newline only, blanks} x indentation 0 / 3")
    options = [(si, fl, q, v) for si in (0, 1) for fl in (None, 1, 4) for q in (0, 1) for v in (0, 4)]
    ctx.parallel("shard_section_history", [(k, o) for k in ("plain", "ansi") for o in options])
    ctx.parallel("shard_setter_history", [(k, f, st_) for k in ("output", "output-section", "buffered-io", "output-from-null") for f in ("plain", "ansi")
                                           for st_ in SETTERS])
    ctx.exhaustive("setter-history", True, "4 object kinds (one built on a null stream) x formatter x all sequences of 1-4 setter calls over {quiet on/off, verbosity 0/1/2/4, set_stream(buffer / null), set_formatter(plain / ansi)}, then a write with every flag word")
    ctx.exhaustive("section-history", True, "2 sections x all histories of 3 write_line calls over section x flags {None,1,4} x quiet x verbosity {0,4} x formatter")
