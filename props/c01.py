"""C01 - parsing a well-formed command line recovers exactly the intended values."""
from hypothesis import strategies as st

from vf import gen_args
from vf.gen_args import typed_equal

LEVEL = "exploration"
RULE = (
    "Hypothesis: format (0-5 options over every value mode x type x nullable x short presence, 0-4 arguments "
    "req/opt/multi typed, 0-2 command names with aliases, split over 1-3 stacked levels, built through the "
    "element-list constructor or the builder) x meaning (which options/arguments are given, typed values from "
    "boundary pools) x one spelling drawn from the grammar (--n=v, --n v, -nv, -n v, grouped flags optionally "
    "ending in a value option, bare optional-value options, options interleaved among positionals, names/aliases, "
    "omitted command-name suffix, '--' tail with option-like positionals); each line parsed strict and lenient, "
    "as argv and (when expressible) as quoted string; exhaustive: for small formats (0-2 options over 8 shapes x 6 "
    "argument shapes x with/without a command name on a base level) and 2-value pools, EVERY meaning x spelling x "
    "interleaving the same grammar can produce, enumerated by depth-first re-execution of the generator over its "
    "choice points (quick: a 1/12 slice of the formats chosen by the seed; thorough: all 900 formats, including explicit long / short name preferences). every result is also asked about itself (format, raw arguments, script name, command names, which names and positions are defined). Non-trivial: "
    "the line shows at least two of the spelling features. Distinct = distinct (format, tokens) by hash."
)
ASSUMPTIONS = [
    "a detached option value is non-empty and does not start with '-'; an empty option value cannot be spelled",
    "an optional-value option without value is followed by an option-like token, '--' or the end, and its expected "
    "value is only judged when its default is not None or it is nullable (else counted excluded_unspecified)",
    "a single-valued option is given at most once; no positional equals an omitted command name or alias",
    "is_option_set(short) / is_argument_set(index) are not judged",
]

FEATURES = {
    "detached-value", "attached-value", "grouped-flags", "group-with-value", "option-between-positionals",
    "separator-tail", "alias", "omitted-command-names", "multi-argument", "multi-option", "typed-value",
    "bare-optional", "protected-positional",
}


def _raws(tokens):
    from clikit.args import ArgvArgs, StringArgs

    from props import c08

    out = [("argv", ArgvArgs(["prog"] + list(tokens)))]
    if all(c08.expressible(t) for t in tokens):
        line = " ".join(c08.quote(t, "bare" if c08.bare_ok(t) else ("single" if i % 2 else "double"))
                        for i, t in enumerate(tokens))
        out.append(("string", StringArgs(line)))
    return out


def observe(args, fmt_desc):
    """Everything the statement lets a caller read from a parse result."""
    obs = {
        "options_set": args.options(False),
        "options_all": args.options(True),
        "arguments_set": args.arguments(False),
        "arguments_all": args.arguments(True),
    }
    return obs


def check_parse(ctx, case, part="parse"):
    from clikit.args.default_args_parser import DefaultArgsParser

    fmt = gen_args.build_format(case["fmt"], case.get("via_builder", False))
    tokens = case["tokens"]
    exp = case["expect"]
    feats = [c for c in case.get("classes", []) if c in FEATURES]
    ctx.case(part, {"fmt": case["fmt"], "tokens": tokens}, len(feats) >= 2, ["c01:" + c for c in case.get("classes", [])])
    if case.get("excluded_unspecified"):
        ctx.count("c01:excluded_unspecified", case["excluded_unspecified"])
    results = {}
    for kind, raw in _raws(tokens):
        if kind == "string" and list(raw.tokens) != list(tokens):
            continue  # C08's business
        for lenient in (False, True):
            tag = "%s-%s" % (kind, "lenient" if lenient else "strict")
            try:
                args = DefaultArgsParser().parse(raw, fmt, lenient)
            except Exception as e:
                ctx.fail(part, "C01.no-error", case, "parse returns", tag, exc=e)
                continue
            try:
                obs = observe(args, case["fmt"])
            except Exception as e:
                ctx.fail(part, "C01.access", case, "result readable", tag, exc=e)
                continue
            results[tag] = obs
            for key, clause in (("options_set", "C01.options"), ("arguments_set", "C01.arguments"),
                                ("options_all", "C01.defaults"), ("arguments_all", "C01.defaults")):
                if not typed_equal(obs[key], exp[key]):
                    ctx.fail(part, clause, case, exp[key], {"mode": tag, key: obs[key]}, sig=key)
            # access by long name, short name, position
            for o in gen_args.fmt_options(case["fmt"]):
                want = exp["options_all"][o["long"]]
                for key in [o["long"]] + ([o["short"]] if o["short"] else []):
                    try:
                        got = args.option(key)
                    except Exception as e:
                        ctx.fail(part, "C01.access", case, want, "option(%r)" % key, exc=e)
                        continue
                    if not typed_equal(got, want):
                        ctx.fail(part, "C01.access", case, want, {"option": key, "got": got, "mode": tag}, sig="option")
                if bool(args.is_option_set(o["long"])) != (o["long"] in exp["options_set"]):
                    ctx.fail(part, "C01.access", case, o["long"] in exp["options_set"],
                             {"is_option_set": o["long"], "mode": tag}, sig="is_option_set")
            for i, a in enumerate(gen_args.fmt_args(case["fmt"])):
                want = exp["arguments_all"][a["name"]]
                for key in (a["name"], i):
                    try:
                        got = args.argument(key)
                    except Exception as e:
                        ctx.fail(part, "C01.access", case, want, "argument(%r)" % (key,), exc=e)
                        continue
                    if not typed_equal(got, want):
                        ctx.fail(part, "C01.access", case, want, {"argument": key, "got": got, "mode": tag},
                                 sig="argument")
                if bool(args.is_argument_set(a["name"])) != (a["name"] in exp["arguments_set"]):
                    ctx.fail(part, "C01.access", case, a["name"] in exp["arguments_set"],
                             {"is_argument_set": a["name"], "mode": tag}, sig="is_argument_set")
            # what else the result tells about itself: the format and raw arguments it was parsed from, the command
            # names of the format, which names / positions are defined at all
            try:
                meta = {
                    "format": args.format is fmt,
                    "raw_args": args.raw_args is raw,
                    "script_name": args.script_name == raw.script_name,
                    "command_names": [n.string for n in args.command_names],
                    "command_options": [o.long_name for o in args.command_options],
                    "defined": [bool(args.is_option_defined(k)) for o in gen_args.fmt_options(case["fmt"])
                                for k in [o["long"]] + ([o["short"]] if o["short"] else [])]
                    + [bool(args.is_argument_defined(k)) for i, a in enumerate(gen_args.fmt_args(case["fmt"]))
                       for k in (a["name"], i)],
                    "undefined": [bool(args.is_option_defined("no-such-option-x")), bool(args.is_argument_defined("no-such-arg")),
                                  bool(args.is_argument_defined(len(gen_args.fmt_args(case["fmt"]))))],
                }
            except Exception as e:
                ctx.fail(part, "C01.access", case, "result describes itself", tag, exc=e)
                continue
            want_meta = {"format": True, "raw_args": True, "script_name": True,
                         "command_names": [n["name"] for n in gen_args.fmt_names(case["fmt"])], "command_options": [],
                         "defined": [True] * len(meta["defined"]), "undefined": [False, False, False]}
            if meta != want_meta:
                ctx.fail(part, "C01.access", case, want_meta, {"mode": tag, "meta": meta}, sig="self-description")
    base = results.get("argv-strict")
    for tag, obs in results.items():
        if base is not None and not typed_equal(obs, base):
            ctx.fail(part, "C01.modes", case, base, {"mode": tag, "obs": obs})


def check_string_vs_argv(ctx, case):
    """C08.equivalence: a command string and the equivalent argv list are indistinguishable to the parser."""
    from clikit.args import ArgvArgs, StringArgs
    from clikit.args.default_args_parser import DefaultArgsParser

    from props import c08

    tokens = case["tokens"]
    if not all(c08.expressible(t) for t in tokens):
        ctx.count("c08:equiv-inexpressible")
        return
    styles = case.get("styles") or ["bare" if c08.bare_ok(t) else "double" for t in tokens]
    line = " ".join(c08.quote(t, s) for t, s in zip(tokens, styles))
    fmt = gen_args.build_format(case["fmt"], case.get("via_builder", False))
    nt = "--" in tokens and any(t.startswith("-") for t in tokens[: tokens.index("--")])
    ctx.case("equiv", {"fmt": case["fmt"], "line": line}, nt)
    sraw = StringArgs(line)
    araw = ArgvArgs(["prog"] + list(tokens))
    if list(sraw.tokens) != list(tokens):
        ctx.fail("equiv", "C08.roundtrip", case, tokens, list(sraw.tokens))
        return
    for lenient in (False, True):
        outs = []
        for raw in (sraw, araw):
            try:
                a = DefaultArgsParser().parse(raw, fmt, lenient)
                outs.append(("ok", a.options(False), a.options(True), a.arguments(False), a.arguments(True)))
            except Exception as e:
                outs.append(("exc", type(e).__name__, str(e)))
        if not typed_equal(list(outs[0]), list(outs[1])):
            ctx.fail("equiv", "C08.equivalence", case, outs[1], outs[0], sig="parser")


@st.composite
def string_vs_argv_cases(draw):
    from props import c08

    case = draw(gen_args.case_st())
    # sometimes break the line so that both forms must fail identically
    toks = list(case["tokens"])
    if toks and draw(st.integers(0, 3)) == 0:
        i = draw(st.integers(0, len(toks) - 1))
        toks[i] = draw(st.sampled_from(["--nope", "-Z", "surplus", "--", ""]))
    case = dict(case, tokens=toks)
    styles = []
    for t in toks:
        opts = ["single", "double"] + (["bare"] if c08.bare_ok(t) else [])
        styles.append(draw(st.sampled_from(opts)))
    case["styles"] = styles
    return case


def _o(long, short, mode, typ, nullable=False, default=None):
    return {"k": "opt", "long": long, "short": short, "mode": mode, "type": typ, "nullable": nullable, "default": default}


def _a(name, kind, typ="s"):
    return {"k": "arg", "name": name, "kind": kind, "type": typ, "nullable": False, "default": None}


def small_formats():
    """The bounded-exhaustive family: 0-2 options over 8 shapes x 6 argument shapes x with/without a command name."""
    shapes = [("none", "s", True, False, None), ("none", "s", False, False, None), ("req", "s", True, False, None),
              ("req", "i", False, False, None), ("opt", "s", True, False, "dflt"), ("opt", "i", False, True, None),
              ("multi", "s", True, False, None), ("multi", "i", False, False, None)]
    optsets = [[]]
    for sh in shapes:
        optsets.append([_o("foo", "f" if sh[2] else None, sh[0], sh[1], sh[3], sh[4])])
    for a in shapes:
        for b in shapes:
            optsets.append([_o("foo", "f" if a[2] else None, a[0], a[1], a[3], a[4]),
                            _o("bar", "b" if b[2] else None, b[0], b[1], b[3], b[4])])
    argsets = [[], [_a("a1", "req")], [_a("a1", "opt", "i")], [_a("a1", "req"), _a("a2", "opt")],
               [_a("a1", "req"), _a("rest", "multi")], [_a("rest", "multireq", "i")]]
    out = []
    # name preference flags (explicit long / short preference on options that have both names)
    optsets.append([dict(_o("foo", "f", "req", "s"), prefer="long"), dict(_o("bar", "b", "none", "s"), prefer="short")])
    optsets.append([dict(_o("foo", "f", "none", "s"), prefer="long"), dict(_o("bar", "b", "multi", "i"), prefer="long")])
    for os_ in optsets:
        for as_ in argsets:
            out.append({"levels": [list(os_) + list(as_)]})
            out.append({"levels": [[{"k": "name", "name": "server", "aliases": ["srv"]}] + list(os_[:1]), list(os_[1:]) + list(as_)]})
    return out


def shard_exhaustive(ctx, arg):
    i, n, stride, offset, limit = arg
    fmts = small_formats()
    for j, fmt in enumerate(fmts):
        if j % n != i or (j // n) % stride != offset:
            continue
        count = 0
        state = {}
        for line in gen_args.enumerate_lines(fmt, limit=limit, small_pools=True, state=state):
            count += 1
            case = {"fmt": fmt, "via_builder": bool(j % 2), "tokens": line["tokens"], "expect": line["expect"],
                    "classes": line["classes"], "excluded_unspecified": line["excluded_unspecified"]}
            check_parse(ctx, case, part="exhaustive")
        ctx.count("c01:exhaustive-formats-complete" if state.get("complete") else "c01:exhaustive-formats-capped")


PARTS = {"parse": check_parse, "exhaustive": lambda ctx, c: check_parse(ctx, c, part="exhaustive")}


HYP = {"parse": (lambda ctx: gen_args.case_st(), check_parse)}

def run(ctx):
    quick = ctx.tier == "quick"
    ctx.hyp_sharded("parse", 12000 if quick else 120000, salt=1)
    # bounded-exhaustive: every spelling and interleaving the grammar can produce, for small formats with 2-value pools
    n_formats = len(small_formats())
    stride = 12 if quick else 1
    ctx.parallel("shard_exhaustive", [(i, 16, stride, ctx.seed % stride, 6000 if quick else 120000) for i in range(16)])
    ctx.exhaustive("exhaustive", ctx.classes.get("c01:exhaustive-formats-capped", 0) == 0, "all meanings x spellings x interleavings of the spelling grammar for %s of the %d small "
                   "formats (0-2 options over 8 shapes x 6 argument shapes x with/without command name), 2-value pools"
                   "; formats whose enumeration exceeds the per-format run cap are counted as capped (classes)"
                   % ("1/12 (slice chosen by the seed)" if quick else "all", n_formats))
