"""C07 - option and argument flags are validated and normalised consistently."""
import itertools
import math
import string

from hypothesis import strategies as st

LEVEL = "exploration"
RULE = (
    "complete enumerations: Option flag words over bits 0..12 (11 defined + 2 undefined, 8192 words) x short name "
    "given/absent x default absent/scalar/list; Argument flag words over bits 0..10 (2048) x default kinds; "
    "CommandOption preference bits x short x aliases; every string of length <= 4 over {a,Z,1,-,_,space,newline,e-acute} "
    "as long name (bare and '--'-prefixed), short name (bare and '-'-prefixed), argument name and alias; conversion "
    "over boundary texts x 4 types x nullable, plus Hypothesis ints (+-2^70), floats (nan, inf, subnormal) and "
    "booleans round-tripped through their text form. Non-trivial: a flag word with >= 2 bits set; a name that is "
    "well-formed or one edit away from well-formed; every conversion case. Distinct by construction (enumeration) / hash."
)
ASSUMPTIONS = [
    "REQUIRED_VALUE|OPTIONAL_VALUE is not a documented contradiction (accepted, mode predicates not judged)",
    "undefined flag bits are ignored by construction and do not make a word contradictory",
    "aliases with a leading dash are not judged (the statement speaks of long and short names)",
]

ASCII = string.ascii_letters
NAME_OK = ASCII + string.digits + "-"


def wf_long(s):
    return len(s) >= 2 and s[0] in ASCII and all(c in NAME_OK for c in s)


def wf_short(s):
    return len(s) == 1 and s in ASCII


def wf_arg(s):
    return len(s) >= 1 and s[0] in ASCII and all(c in NAME_OK for c in s)


def strip1(s, prefix):
    return s[len(prefix):] if s.startswith(prefix) else s


# default kinds: none, a truthy scalar / list, and the falsy values that are not None
DEFAULTS = {"absent": None, "scalar": "d", "list": ["d"], "zero": 0, "zero-float": 0.0, "false": False, "empty-string": "",
            "empty-list": []}
DEFAULT_KINDS = list(DEFAULTS)


# ---------------------------------------------------------------------------------- options
OB = dict(PL=1, PS=2, NO=4, REQ=8, OPT=16, MULTI=32, STR=128, BOOL=256, INT=512, FLT=1024, NULL=2048)


def option_contradiction(w, short, default):
    """Reason why the statement forbids this combination, or None."""
    if w & OB["PL"] and w & OB["PS"]:
        return "both preferences"
    if w & OB["NO"] and w & (OB["REQ"] | OB["OPT"] | OB["MULTI"]):
        return "value-less with a value mode"
    if w & OB["OPT"] and w & OB["MULTI"]:
        return "optional value multi-valued"
    if bin(w & (OB["STR"] | OB["BOOL"] | OB["INT"] | OB["FLT"])).count("1") > 1:
        return "more than one type"
    if w & OB["PS"] and short is None:
        return "short preference without short name"
    valueless = bool(w & OB["NO"]) or not (w & (OB["REQ"] | OB["OPT"] | OB["MULTI"]))
    if valueless and default is not None:
        return "default on a value-less option"
    if w & OB["MULTI"] and default is not None and not isinstance(default, list):
        return "scalar default on multi-valued"
    return None


def check_option_word(ctx, case, by_construction=False):
    from clikit.api.args.format import Option

    w, short, dk = case["flags"], case["short"], case["default"]
    default = DEFAULTS[dk]
    ctx.case("option-flags", case, bin(w).count("1") >= 2, distinct_by_construction=by_construction)
    why = option_contradiction(w, short, default)
    try:
        o = Option("name", short, w, None, list(default) if isinstance(default, list) else default)
    except ValueError as e:
        if why is None:
            ctx.fail("option-flags", "C07.accept-iff", case, "accepted", "ValueError: %s" % e, sig="option-rejected")
        return
    except Exception as e:
        ctx.fail("option-flags", "C07.accept-iff", case, "accepted or ValueError", None, exc=e)
        return
    if why is not None:
        ctx.fail("option-flags", "C07.accept-iff", case, "ValueError (%s)" % why, "accepted", sig="option-accepted")
        return
    f = o.flags
    problems = []
    if bin(f & (128 | 256 | 512 | 1024)).count("1") != 1:
        problems.append("type bits %d" % (f & 1920))
    if bool(o.is_long_name_preferred()) == bool(o.is_short_name_preferred()):
        problems.append("preference")
    if not (f & (4 | 8 | 16 | 32)):
        problems.append("no value mode")
    if f & 4:
        if o.accepts_value() or o.default is not None or o.is_value_required() or o.is_value_optional() \
                or o.is_multi_valued():
            problems.append("value-less option takes a value / has default")
    else:
        if not o.accepts_value():
            problems.append("accepts_value false without NO_VALUE")
    if o.is_multi_valued():
        if not o.is_value_required():
            problems.append("multi-valued without required value")
        if o.default != (default if default is not None else []) or not isinstance(o.default, list):
            problems.append("multi-valued default %r" % (o.default,))
    elif o.accepts_value() and o.default != default:
        problems.append("default %r" % (o.default,))
    if o.long_name != "name" or o.short_name != short:
        problems.append("names")
    if w & OB["PS"] and not o.is_short_name_preferred() or w & OB["PL"] and not o.is_long_name_preferred():
        problems.append("requested preference lost")
    for bit in (4, 8, 16, 32, 128, 256, 512, 1024, 2048):
        if w & bit and not f & bit:
            problems.append("requested bit %d lost" % bit)
    if problems:
        ctx.fail("option-flags", "C07.normal-form", case, "normalised option", problems, sig="option")
        return
    # set_default on the constructed option: same rules as at construction, and a rejected call changes nothing
    for new in ("x", ["y"], None, 0, ("t",)):
        before = o.default
        legal = o.accepts_value() and (not o.is_multi_valued() or new is None or isinstance(new, list))
        try:
            o.set_default(list(new) if isinstance(new, list) else new)
            outcome = "ok"
        except ValueError:
            outcome = "ValueError"
        except Exception as e:
            ctx.fail("option-flags", "C07.normal-form", case, "set_default(%r) accepted or ValueError" % (new,), None, exc=e)
            return
        want_default = ([] if (new is None and o.is_multi_valued()) else new) if legal else before
        if outcome != ("ok" if legal else "ValueError") or o.default != want_default \
                or (o.is_multi_valued() and not isinstance(o.default, list)):
            ctx.fail("option-flags", "C07.normal-form", case,
                     {"set_default": repr(new), "outcome": "ok" if legal else "ValueError", "default": repr(want_default)},
                     {"outcome": outcome, "default": repr(o.default)}, sig="option-set-default")
            return


# -------------------------------------------------------------------------------- arguments
AB = dict(REQ=1, OPT=2, MULTI=4, STR=16, BOOL=32, INT=64, FLT=128, NULL=256)


def argument_contradiction(w, default):
    if w & AB["REQ"] and w & AB["OPT"]:
        return "required and optional"
    if bin(w & (16 | 32 | 64 | 128)).count("1") > 1:
        return "more than one type"
    if w & AB["REQ"] and default is not None:
        return "default on required"
    if w & AB["MULTI"] and default is not None and not isinstance(default, list):
        return "scalar default on multi-valued"
    return None


def check_argument_word(ctx, case, by_construction=False):
    from clikit.api.args.format import Argument

    w, dk = case["flags"], case["default"]
    default = DEFAULTS[dk]
    ctx.case("argument-flags", case, bin(w).count("1") >= 2, distinct_by_construction=by_construction)
    why = argument_contradiction(w, default)
    try:
        a = Argument("name", w, None, list(default) if isinstance(default, list) else default)
    except ValueError as e:
        if why is None:
            ctx.fail("argument-flags", "C07.accept-iff", case, "accepted", "ValueError: %s" % e, sig="argument-rejected")
        return
    except Exception as e:
        ctx.fail("argument-flags", "C07.accept-iff", case, "accepted or ValueError", None, exc=e)
        return
    if why is not None:
        ctx.fail("argument-flags", "C07.accept-iff", case, "ValueError (%s)" % why, "accepted", sig="argument-accepted")
        return
    problems = []
    f = a.flags
    if bin(f & (16 | 32 | 64 | 128)).count("1") != 1:
        problems.append("type bits")
    if bool(a.is_required()) == bool(a.is_optional()):
        problems.append("required/optional")
    if bool(a.is_required()) != bool(w & 1):
        problems.append("requiredness changed")
    if a.is_multi_valued():
        if not isinstance(a.default, list) or a.default != (default if default is not None else []):
            problems.append("multi default %r" % (a.default,))
    elif a.default != default:
        problems.append("default %r" % (a.default,))
    if bool(a.is_multi_valued()) != bool(w & 4):
        problems.append("multi flag")
    if a.name != "name":
        problems.append("name")
    if problems:
        ctx.fail("argument-flags", "C07.normal-form", case, "normalised argument", problems, sig="argument")
        return
    for new in ("x", ["y"], None, 0, ("t",)):
        before = a.default
        legal = not a.is_required() and (not a.is_multi_valued() or new is None or isinstance(new, list))
        try:
            a.set_default(list(new) if isinstance(new, list) else new)
            outcome = "ok"
        except ValueError:
            outcome = "ValueError"
        except Exception as e:
            ctx.fail("argument-flags", "C07.normal-form", case, "set_default(%r) accepted or ValueError" % (new,), None, exc=e)
            return
        want_default = ([] if (new is None and a.is_multi_valued()) else new) if legal else before
        if outcome != ("ok" if legal else "ValueError") or a.default != want_default \
                or (a.is_multi_valued() and not isinstance(a.default, list)):
            ctx.fail("argument-flags", "C07.normal-form", case,
                     {"set_default": repr(new), "outcome": "ok" if legal else "ValueError", "default": repr(want_default)},
                     {"outcome": outcome, "default": repr(a.default)}, sig="argument-set-default")
            return


def check_command_option(ctx, case, by_construction=False):
    from clikit.api.args.format import CommandOption

    w, short, aliases = case["flags"], case["short"], case["aliases"]
    ctx.case("command-option", case, bin(w).count("1") >= 2 or len(aliases) >= 2, distinct_by_construction=by_construction)
    bad = None
    if w & 1 and w & 2:
        bad = "both preferences"
    elif w & 2 and short is None:
        bad = "short preference without short name"
    try:
        o = CommandOption("name", short, list(aliases), w)
    except ValueError as e:
        if bad is None:
            ctx.fail("command-option", "C07.accept-iff", case, "accepted", str(e), sig="command-option-rejected")
        return
    except Exception as e:
        ctx.fail("command-option", "C07.accept-iff", case, "accepted or ValueError", None, exc=e)
        return
    if bad:
        ctx.fail("command-option", "C07.accept-iff", case, "ValueError (%s)" % bad, "accepted", sig="command-option-accepted")
        return
    if bool(o.is_long_name_preferred()) == bool(o.is_short_name_preferred()):
        ctx.fail("command-option", "C07.normal-form", case, "exactly one preference", o.flags, sig="command-option")
    exp_long = [a for a in aliases if len(a) > 1]
    exp_short = [a for a in aliases if len(a) == 1]
    if list(o.long_aliases) != exp_long or list(o.short_aliases) != exp_short:
        ctx.fail("command-option", "C07.normal-form", case, [exp_long, exp_short],
                 [list(o.long_aliases), list(o.short_aliases)], sig="aliases")


# ------------------------------------------------------------------------------------ names
NAME_ALPHABET = ["a", "Z", "1", "-", "_", " ", "\n", "é"]


def near_wellformed(s):
    if wf_long(s) or wf_short(s) or wf_arg(s):
        return True
    for i in range(len(s)):
        t = s[:i] + s[i + 1:]
        if wf_long(t) or wf_short(t) or wf_arg(t):
            return True
    return False


def check_name(ctx, s, by_construction=False):
    from clikit.api.args.format import Argument, CommandOption, Option

    ctx.case("names", s, near_wellformed(s), distinct_by_construction=by_construction)

    def verdict(fn):
        try:
            return ("ok", fn())
        except ValueError:
            return ("ValueError", None)
        except Exception as e:
            return ("other", e)

    # long name, bare and prefixed
    for given, want_ok, stored in ((s, wf_long(strip1(s, "--")), strip1(s, "--")), ("--" + s, wf_long(s), s)):
        v, o = verdict(lambda: Option(given))
        if v == "other":
            ctx.fail("names", "C07.names", s, ["long", given, "accepted or ValueError"], None, exc=o)
        elif (v == "ok") != want_ok:
            ctx.fail("names", "C07.names", s, ["long", given, "accepted" if want_ok else "ValueError"], v, sig="long")
        elif v == "ok" and o.long_name != stored:
            ctx.fail("names", "C07.names", s, ["long", given, stored], o.long_name, sig="long-stored")
    # short name, bare and prefixed
    for given, want_ok, stored in ((s, wf_short(strip1(s, "-")), strip1(s, "-")), ("-" + s, wf_short(s), s)):
        v, o = verdict(lambda: Option("name", given))
        if v == "other":
            ctx.fail("names", "C07.names", s, ["short", given, "accepted or ValueError"], None, exc=o)
        elif (v == "ok") != want_ok:
            ctx.fail("names", "C07.names", s, ["short", given, "accepted" if want_ok else "ValueError"], v, sig="short")
        elif v == "ok" and o.short_name != stored:
            ctx.fail("names", "C07.names", s, ["short", given, stored], o.short_name, sig="short-stored")
    # argument name
    v, o = verdict(lambda: Argument(s))
    if v == "other":
        ctx.fail("names", "C07.names", s, ["argument", s, "accepted or ValueError"], None, exc=o)
    elif (v == "ok") != wf_arg(s):
        ctx.fail("names", "C07.names", s, ["argument", s, "accepted" if wf_arg(s) else "ValueError"], v, sig="argument")
    # alias (bare only)
    if not s.startswith("-"):
        want = wf_short(s) or wf_long(s)
        v, o = verdict(lambda: CommandOption("name", None, [s]))
        if v == "other":
            ctx.fail("names", "C07.names", s, ["alias", s, "accepted or ValueError"], None, exc=o)
        elif (v == "ok") != want:
            ctx.fail("names", "C07.names", s, ["alias", s, "accepted" if want else "ValueError"], v, sig="alias")


# -------------------------------------------------------------------------------- conversion
TEXTS = ["", " ", "null", "NULL", "0", "-0", "1", "2", "-1", "+3", "007", "1e3", "1E3", "nan", "inf", "-inf", "٣", "1_0",
         "0x10", "true", "false", "TRUE", "yes", "no", "on", "off", "  5  ", "5.0", ".5", "5.", "abc", "é", "1e400",
         "9" * 400, "9" * 5000, "1.7976931348623157e308", "5e-324", "None", "True", "--", "1,5", "1 2"]
NONTEXT = [None, True, False, 3, 2.5]
# values that are neither texts nor numbers (a programmatic caller can pass anything to set_option / set_argument);
# a case names them by key so that it stays a JSON document
SPECIAL = {"@empty-tuple": (), "@tuple2": (1, 2), "@tuple3": ("1", "2", "3"), "@tuple1": ("7",), "@list": [1, 2],
           "@empty-list": [], "@dict": {"a": 1}, "@bytes": b"5", "@object": object(), "@percent": "%s %d %",
           "@braces": "{} {0} {x}"}
TYPE_OF = {"s": str, "b": bool, "i": int, "f": float}


def make_typed(kind, typ, nullable):
    from clikit.api.args.format import Argument, Option

    if kind == "option":
        bits = {"s": Option.STRING, "b": Option.BOOLEAN, "i": Option.INTEGER, "f": Option.FLOAT}[typ]
        return Option("name", None, Option.REQUIRED_VALUE | bits | (Option.NULLABLE if nullable else 0))
    bits = {"s": Argument.STRING, "b": Argument.BOOLEAN, "i": Argument.INTEGER, "f": Argument.FLOAT}[typ]
    return Argument("name", bits | (Argument.NULLABLE if nullable else 0))


def check_convert(ctx, case):
    kind, typ, nullable, value = case["kind"], case["type"], case["nullable"], case["value"]
    if isinstance(value, str) and value in SPECIAL:
        value = SPECIAL[value]
    ctx.case("convert", case, True)
    el = make_typed(kind, typ, nullable)
    try:
        r = el.parse(value)
    except ValueError:
        ctx.count("c07:convert-ValueError")
        return
    except Exception as e:
        ctx.fail("convert", "C07.convert", case, "a %s, None or ValueError" % typ, None, exc=e)
        return
    if r is None:
        if not (nullable and (value is None or value == "null")):
            ctx.fail("convert", "C07.convert", case, "None only when nullable and the text is null", repr(r), sig="none")
        return
    if type(r) is not TYPE_OF[typ]:
        ctx.fail("convert", "C07.convert", case, TYPE_OF[typ].__name__, type(r).__name__, sig="type")


def check_roundtrip(ctx, case):
    """The text form of every int, float and boolean maps back to that value."""
    typ, v = case["type"], case["value"]
    if typ == "f" and isinstance(v, str):
        v = float(v)
    ctx.case("convert-roundtrip", case, True)
    for kind in ("option", "argument"):
        for nullable in (False, True):
            el = make_typed(kind, typ, nullable)
            texts = [repr(v)] if typ == "f" else [str(v)]
            if typ == "b":
                from clikit.utils.string import parse_string

                texts = [str(v).lower(), parse_string(v, False)]
            for t in texts:
                try:
                    r = el.parse(t)
                except Exception as e:
                    ctx.fail("convert-roundtrip", "C07.convert", case, v, t, exc=e)
                    continue
                same = (type(r) is type(v)) and (r == v or (typ == "f" and math.isnan(v) and math.isnan(r)))
                if not same:
                    ctx.fail("convert-roundtrip", "C07.convert", case, repr(v), repr(r), sig="roundtrip")


PARTS = {
    "option-flags": check_option_word,
    "argument-flags": check_argument_word,
    "command-option": check_command_option,
    "names": check_name,
    "convert": check_convert,
    "convert-roundtrip": check_roundtrip,
}


def shard_codepoints(ctx, arg):
    """Every code point in [lo, hi) alone, and before / after / between ASCII letters: the character classes of
    the name rules are ASCII-only, whatever Unicode case folding or category the code point has."""
    lo, hi = arg
    for cp in range(lo, hi):
        c = chr(cp)
        for s in (c, "a" + c, c + "a", "k-" + c + "1"):
            check_name(ctx, s, True)


def shard_options(ctx, arg):
    lo, hi = arg
    for w in range(lo, hi):
        for short in (None, "s"):
            for dk in DEFAULT_KINDS:
                check_option_word(ctx, {"flags": w, "short": short, "default": dk}, True)


def run(ctx):
    quick = ctx.tier == "quick"
    # every flag word first goes through the sibling class CommandOption (for which only the name-preference bits
    # matter), in this process, before the workers are forked: what one class accepted must not decide for another
    from clikit.api.args.format import CommandOption

    for w in range(1 << 13):
        try:
            CommandOption("name", "s", [], w)
        except ValueError:
            pass
    ctx.parallel("shard_options", [(i * 512, (i + 1) * 512) for i in range(16)])
    ctx.exhaustive("option-flags", True, "2^13 flag words x short given/absent x %d default kinds (none, truthy scalar/list, 0, 0.0, False, empty string/list)" % len(DEFAULT_KINDS))
    for w in range(2048):
        for dk in DEFAULT_KINDS:
            check_argument_word(ctx, {"flags": w, "default": dk}, True)
    ctx.exhaustive("argument-flags", True, "2^11 flag words x %d default kinds" % len(DEFAULT_KINDS))
    for w in range(8):
        for short in (None, "s"):
            for aliases in ([], ["x"], ["alias"], ["x", "alias", "y"], ["al-2", "B"]):
                check_command_option(ctx, {"flags": w, "short": short, "aliases": aliases}, True)
    ctx.exhaustive("command-option", True, "3 flag bits x short x 5 alias lists")
    for n in range(0, 5):
        for tup in itertools.product(NAME_ALPHABET, repeat=n):
            check_name(ctx, "".join(tup), True)
    top = 0x10000 if quick else 0x110000
    step = top // 16
    ctx.parallel("shard_codepoints", [(i * step, (i + 1) * step) for i in range(16)])
    ctx.exhaustive("names", True, "all strings of length <= 4 over %r; every code point below U+%X alone and "
                   "next to ASCII letters" % (NAME_ALPHABET, top))
    for kind in ("option", "argument"):
        for typ in "sbif":
            for nullable in (False, True):
                for v in TEXTS + NONTEXT + sorted(SPECIAL):
                    check_convert(ctx, {"kind": kind, "type": typ, "nullable": nullable, "value": v})
    ctx.exhaustive("convert", True, "%d boundary inputs (texts, numbers, tuples, lists, dict, bytes, object) x 4 types x nullable x option/argument" % len(TEXTS + NONTEXT + sorted(SPECIAL)))
    n = 1500 if quick else 50000
    ints = st.one_of(st.integers(-2 ** 70, 2 ** 70), st.integers(-100, 100)).map(lambda i: {"type": "i", "value": i})
    floats = st.floats(allow_nan=True, allow_infinity=True).map(lambda f: {"type": "f", "value": repr(f)})
    bools = st.booleans().map(lambda b: {"type": "b", "value": b})
    ctx.hyp(st.one_of(ints, floats, bools), lambda c: check_roundtrip(ctx, c), n, salt=1)
    text = st.text(max_size=12).map(lambda t: t)
    conv = st.fixed_dictionaries({"kind": st.sampled_from(["option", "argument"]), "type": st.sampled_from("sbif"),
                                  "nullable": st.booleans(), "value": text})
    ctx.hyp(conv, lambda c: check_convert(ctx, c), n, salt=2)
