"""C17 - what is rendered does not depend on what was processed before."""
import itertools
import json
import os
import subprocess
import sys

from hypothesis import strategies as st

from props import c03
from vf import gen_tree, markup, raisers
from vf.runner import REPO_SRC, ROOT

LEVEL = "exploration"
RULE = (
    "history: Hypothesis command tree (some commands explicitly configured lenient) under the default (or bare) config and 2-6 (thorough <= 10) command lines drawn "
    "from {valid, wrong token, unnameable, undefined, partial, tail, surplus arguments, unknown option, ill-typed values, help, help "
    "<path>, help <path> <surplus / ill-typed>, <path> --help, <path> -h, --version}, some handlers raising, all run on ONE "
    "application object and each also on a freshly built identical application; shared-parser: the same with one "
    "DefaultArgsParser instance installed on every command config; styles: every order of constructing the four "
    "predefined table styles x which one is customised, each in a fresh interpreter, rendered tables compared with "
    "the interpreter that constructs only that style; rerender: components rendered twice. Non-trivial: a history in "
    "which a help request or a failing run precedes a normal run. Distinct by hash of the history."
)
ASSUMPTIONS = [
    "per run the raw arguments are built anew from the same token list",
    "the style children are short-lived /venv/bin/python processes that import clikit from the tree under test",
]


def collect_paths(tree, cfgk):
    return gen_tree.all_paths(tree, cfgk)


def make_app(tree, cfgk, raise_paths, log, shared_parser=None, stylers=(), unclosed=(), factories=()):
    from vf import markup as mk

    def tag(name, text):
        return mk.LT + name + mk.GT + text + mk.LT + "/" + name + mk.GT

    def handler_for(path, cmd):
        class H(object):
            def __init__(self):
                self.calls = 0  # state of THIS handler object

            def handle(self, args, io, command):
                log.append((command.full_name, args.arguments(False), args.options(False)))
                self.calls += 1
                if " ".join(path) in factories:
                    # registered as a factory: the library builds a handler for every run, so this is always call 1
                    io.write_line("call %d on this handler object" % self.calls)
                if " ".join(path) in stylers:
                    # registers a style on the formatter of the I/O it was handed (that I/O belongs to this run)
                    from clikit.api.formatter import Style

                    io.output.formatter.add_style(Style("hl").fg("red").bold())
                # 'hl' is not a style of the application: without the registration above it is shown as written
                io.write_line("ran " + command.full_name + " " + tag("hl", "shown") + " " + tag("b", "bold"))
                io.error_line("err " + command.full_name)
                if " ".join(path) in unclosed:
                    io.write_line(mk.LT + "error" + mk.GT + "unterminated " + command.full_name)
                if " ".join(path) in raise_paths:
                    raise ValueError("handler of %s failed" % command.full_name)
                return 3 if len(path) > 2 else 0

        if " ".join(path) in factories:
            return H  # a callable: Config.handler calls it whenever a handler is needed
        return H()

    def configure(cfg):
        if shared_parser is not None:
            for cc in cfg.command_configs:
                _install(cc, shared_parser)

    return gen_tree.build_app(tree, cfgk, handler_for, configure=configure)


def _install(cc, parser):
    if cc.name != "help":
        cc.set_args_parser(parser)
    for s in cc.sub_command_configs:
        _install(s, parser)


def run_once(app, tokens):
    from clikit.args import ArgvArgs
    from clikit.io.input_stream import StringInputStream
    from clikit.io.output_stream import BufferedOutputStream

    out, err = BufferedOutputStream(), BufferedOutputStream()
    status = app.run(ArgvArgs(["prog"] + list(tokens)), StringInputStream(""), out, err)
    return status, out.fetch(), err.fetch()


def leniency(app, tree, cfgk):
    out = {}
    for p in collect_paths(tree, cfgk):
        try:
            out[" ".join(p)] = bool(gen_tree.find_real(app, p).config.is_lenient_args_parsing_enabled())
        except Exception:
            pass
    return out


def check_history(ctx, case, part="history"):
    from clikit.args.default_args_parser import DefaultArgsParser

    os.environ["COLUMNS"] = "80"
    tree, cfgk, steps, raise_paths = case["tree"], case["config"], case["steps"], set(case.get("raise_paths", []))
    shared = part == "shared-parser"
    log = []
    try:
        extra = {"stylers": set(case.get("stylers", [])), "unclosed": set(case.get("unclosed", [])),
                 "factories": set(case.get("factories", []))}
        app = make_app(tree, cfgk, raise_paths, log, DefaultArgsParser() if shared else None, **extra)
    except Exception as e:
        raise AssertionError("generator built an illegal tree: %r" % (e,))
    before = leniency(app, tree, cfgk)
    nt = False
    seen_special = False
    for i, step in enumerate(steps):
        tokens = step["tokens"]
        del log[:]
        try:
            got = run_once(app, tokens)
        except Exception as e:
            ctx.fail(part, "C17.run-equal", case, "run returns", {"step": i}, exc=e)
            return
        got_log = list(log)
        flog = []
        fresh = make_app(tree, cfgk, raise_paths, flog, DefaultArgsParser() if shared else None, **extra)
        try:
            want = run_once(fresh, tokens)
        except Exception as e:
            ctx.fail(part, "C17.run-equal", case, "fresh run returns", {"step": i}, exc=e)
            return
        if got != want or got_log != flog:
            what = "status" if got[0] != want[0] else ("handler-arguments" if got_log != flog else "output")
            ctx.fail(part, "C17.run-equal", case, {"step": i, "tokens": tokens, "fresh": [want, flog]},
                     {"reused": [got, got_log]}, sig=what if not shared else "shared-parser-" + what)
            return
        after = leniency(app, tree, cfgk)
        if after != before:
            diff = sorted(k for k in before if before[k] != after.get(k))
            ctx.fail(part, "C17.config-restored", case, "leniency of every command as before the first run",
                     {"step": i, "tokens": tokens, "changed": diff}, sig="leniency")
            return
        special = step["kind"].startswith("help") or got[0] != 0
        if seen_special and not special:
            nt = True
        seen_special = seen_special or special
    ctx.case(part, {"tree": tree, "config": cfgk, "steps": [s["tokens"] for s in steps]}, nt,
             ["c17:" + s["kind"] for s in steps])


@st.composite
def history_case(draw, max_steps):
    cfgk = draw(st.sampled_from(["default", "default", "default", "bare"]))
    tree = draw(gen_tree.tree_st(typed=True, lenient=True))
    paths = [" ".join(p) for p in gen_tree.all_paths(tree, cfgk) if p != ["help"]]
    raise_paths = draw(st.lists(st.sampled_from(paths), max_size=2, unique=True)) if paths else []
    steps = []
    for _ in range(draw(st.integers(2, max_steps))):
        kind = draw(st.sampled_from(["line", "line", "line", "surplus", "unknown-option", "ill-typed", "help", "help-path",
                                     "help-path-surplus", "help-path-ill-typed", "path-help", "path-h", "version"]))
        c = draw(c03.line_for(tree, cfgk))
        base = list(c["tokens"])
        path = [t for t in c03.gen_tree.leading_tokens(base)][: c.get("depth", 0)]
        if cfgk == "bare" and kind.startswith(("help", "path-", "version")):
            kind = "line"
        if kind == "line":
            tokens, kind = base, "line-" + c["kind"]
        elif kind == "surplus":
            tokens = base + ["surplus1", "surplus2", "surplus3", "surplus4"]
        elif kind == "unknown-option":
            tokens = base + ["--nope"]
        elif kind == "help":
            tokens = ["help"]
        elif kind == "help-path":
            tokens = ["help"] + path
        elif kind == "help-path-surplus":
            tokens = ["help"] + path + ["abc", "def", "ghi", "jkl"]
        elif kind == "help-path-ill-typed":
            tokens = ["help"] + path + ["notanumber"] * draw(st.integers(1, 3))
        elif kind == "ill-typed":
            tokens = path + ["notanumber"] * draw(st.integers(1, 3))
        elif kind == "path-help":
            tokens = path + ["--help"]
        elif kind == "path-h":
            tokens = path + ["-h"] + base[len(path):]
        else:
            tokens = ["--version"] + [] if not path else path + ["--version"]
        steps.append({"kind": kind, "tokens": tokens})
    case = {"tree": tree, "config": cfgk, "steps": steps, "raise_paths": raise_paths}
    if paths and draw(st.booleans()):
        # some handlers register a style on their run's formatter / leave a tag open
        case["stylers"] = draw(st.lists(st.sampled_from(paths), max_size=2, unique=True))
        case["unclosed"] = draw(st.lists(st.sampled_from(paths), max_size=1, unique=True))
        case["factories"] = draw(st.lists(st.sampled_from(paths), max_size=3, unique=True))
        if draw(st.booleans()):
            for s_ in steps:
                if s_["kind"].startswith("line") and "--" not in s_["tokens"]:
                    s_["tokens"] = list(s_["tokens"]) + ["--ansi"]
    return case


# ------------------------------------------------------------------------------------------ styles
STYLES = ["ascii", "solid", "borderless", "compact"]


def child(spec):
    env = dict(os.environ, CLIKIT_SRC=REPO_SRC, PYTHONHASHSEED="0")
    p = subprocess.run([sys.executable, os.path.join(ROOT, "vf", "style_child.py"), json.dumps(spec)],
                       stdout=subprocess.PIPE, stderr=subprocess.PIPE, text=True, env=env)
    if p.returncode != 0:
        from vf.runner import HarnessError

        raise HarnessError("style child failed: %s" % p.stderr[-2000:])
    return json.loads(p.stdout.strip().splitlines()[-1])


_reference = {}


def reference(name, customised):
    key = (name, customised)
    if key not in _reference:
        _reference[key] = child({"order": [name], "customise": 0 if customised else None})[0]
    return _reference[key]


def check_styles(ctx, case):
    order, customise = case["order"], case.get("customise")
    ctx.case("styles", case, customise is not None)
    got = child({"order": order, "customise": customise})
    for i, name in enumerate(order):
        want = reference(name, customise == i)
        if got[i] != want:
            ctx.fail("styles", "C17.style", case, {"%d:%s" % (i, name): want}, {"%d:%s" % (i, name): got[i]},
                     sig="customised-other" if customise is not None and customise != i else "construction-order")


def style_cases():
    cases = []
    for k in (2, 3, 4):
        for order in itertools.permutations(STYLES, k):
            for customise in [None] + list(range(k)):
                cases.append({"order": list(order), "customise": customise})
    for a in STYLES:
        for b in STYLES:
            # the same / another style constructed again after one instance was customised
            cases.append({"order": [a, b, a], "customise": 0})
            cases.append({"order": [a, a], "customise": 1})
    return cases


def shard_styles(ctx, arg):
    i, n = arg
    for j, c in enumerate(style_cases()):
        if j % n == i:
            check_styles(ctx, c)


# ---------------------------------------------------------------------------------------- rerender
def check_rerender(ctx, case):
    from clikit.formatter import AnsiFormatter, PlainFormatter
    from clikit.io import BufferedIO
    from clikit.ui.components import LabeledParagraph, Paragraph, Table
    from clikit.ui.components.exception_trace import ExceptionTrace
    from clikit.ui.rectangle import Rectangle
    from clikit.ui.style import TableStyle

    kind = case["component"]
    ctx.case("rerender", case, True)

    def make_io():
        io = BufferedIO("", AnsiFormatter(forced=True) if case.get("ansi") else PlainFormatter())
        io.set_terminal_dimensions(Rectangle(case.get("width", 60), 20))
        io.set_verbosity(case.get("verbosity", 0))
        return io

    if kind == "table":
        from clikit.api.formatter import Style

        from vf import markup as mk

        tstyle = getattr(TableStyle, case["style"])()
        styled = case.get("styled", 0)  # bit 0: cell style, bit 1: header cell style, bit 2: border style
        if styled & 1:
            tstyle.cell_style = Style().fg("yellow")
        if styled & 2:
            tstyle.header_cell_style = Style().bold()
        if styled & 4:
            tstyle.border_style.style = Style().fg("blue")
        comp = Table(tstyle)
        bold = (lambda t: mk.LT + "b" + mk.GT + t + mk.LT + "/b" + mk.GT) if case.get("tagged") else (lambda t: t)
        comp.set_header_row([bold("A") + " (id)", "Column B", "C"])
        rows = [["x", "some longer text that will have to be wrapped " * 3, "1"], [bold("y") + " one", "short", "22"]]
        comp.add_rows(rows)
        snapshot = json.dumps(rows)
    elif kind == "paragraph":
        comp = Paragraph("word " * 40)
    elif kind == "labeled":
        comp = LabeledParagraph("label", "text " * 40)
    else:
        try:
            raisers.raiser("c17").deep(case.get("depth", 3), ValueError("render me twice"))
        except ValueError as e:
            comp = ExceptionTrace(e)
    outs = []
    shared = make_io()
    for i in range(4):
        # renders 0 and 1 on fresh I/Os, renders 2 and 3 on ONE I/O (its formatter is re-used)
        io = make_io() if i < 2 else shared
        try:
            comp.render(io)
        except Exception as e:
            ctx.fail("rerender", "C17.rerender", case, "render returns", None, exc=e)
            return
        outs.append(io.fetch_output() + io.fetch_error())
        io.clear_output() if hasattr(io, "clear_output") else None
        io.clear_error() if hasattr(io, "clear_error") else None
    if outs[0] != outs[1]:
        ctx.fail("rerender", "C17.rerender", case, outs[0], outs[1], sig=kind)
    elif outs[2] != outs[0] or outs[3] != outs[0]:
        ctx.fail("rerender", "C17.rerender", case, outs[0], outs[2:], sig=kind + "-same-io")
    if case.get("ansi") and kind != "trace":
        # a line written to the used I/O afterwards looks like the same line on a fresh I/O
        from vf import markup as mk

        line = mk.LT + "b" + mk.GT + "done" + mk.LT + "/b" + mk.GT + " 3 rows"
        fresh = make_io()
        shared.write_line(line)
        fresh.write_line(line)
        if shared.fetch_output() != fresh.fetch_output():
            ctx.fail("rerender", "C17.rerender", case, fresh.fetch_output(), shared.fetch_output(), sig=kind + "-line-after")
    if kind == "table" and json.dumps(rows) != snapshot:
        ctx.fail("rerender", "C17.rerender", case, snapshot, json.dumps(rows), sig="table-rows-modified")


SEQ_SRC = '''# generated by the verification harness
def outer(exc):
    x = "TAG-outer"
    return inner(exc)


def inner(exc):
    y = "TAG-inner"
    raise exc
'''


def check_trace_sequence(ctx, case):
    """A trace rendered after another one (same function names and line numbers, different file) shows its own source."""
    from clikit.formatter import AnsiFormatter, PlainFormatter
    from clikit.io import BufferedIO
    from clikit.ui.components.exception_trace import ExceptionTrace

    ctx.case("trace-sequence", case, True)
    outs = {}
    for tag in case["tags"]:
        mod, path = raisers.load_source("c17s", SEQ_SRC.replace("TAG", tag))
        try:
            mod.outer(ValueError("from " + tag))
        except ValueError as e:
            io = BufferedIO("", AnsiFormatter(forced=True) if case.get("ansi") else PlainFormatter())
            io.set_verbosity(case["verbosity"])
            try:
                ExceptionTrace(e).render(io)
            except Exception as ex:
                ctx.fail("trace-sequence", "C17.rerender", case, "render returns", tag, exc=ex)
                return
            outs[tag] = markup.strip_sgr(io.fetch_output())
    for tag, text in outs.items():
        others = [t for t in case["tags"] if t != tag]
        if (tag + "-inner") not in text or any((o + "-inner") in text or (o + "-outer") in text for o in others):
            ctx.fail("trace-sequence", "C17.rerender", case, "the trace of %s shows only its own source" % tag, text,
                     sig="foreign-source")
            return
        if case["verbosity"] == 4 and (tag + "-outer") not in text:
            ctx.fail("trace-sequence", "C17.rerender", case, "the debug trace of %s shows the outer frame's source" % tag,
                     text, sig="outer-frame")
            return


PARTS = {"trace-sequence": check_trace_sequence, "history": check_history, "shared-parser": lambda ctx, c: check_history(ctx, c, part="shared-parser"),
         "styles": check_styles, "rerender": check_rerender}


def run_shared_parser(ctx):
    """Also used by C05: one parser instance shared by all commands of an application."""
    quick = ctx.tier == "quick"
    ctx.hyp(history_case(4 if quick else 8), lambda c: check_history(ctx, c, part="shared-parser"),
            150 if quick else 4000, salt=77)


HYP = {"history": (lambda ctx: history_case(6 if ctx.tier == "quick" else 10), check_history)}

def run(ctx):
    quick = ctx.tier == "quick"
    for v in (0, 1, 2, 4):
        for ansi in (False, True):
            check_trace_sequence(ctx, {"tags": ["alpha", "beta", "gamma"], "verbosity": v, "ansi": ansi})
    for comp in ("table", "paragraph", "labeled", "trace"):
        for ansi in (False, True):
            for v in ((0, 1, 4) if comp == "trace" else (0,)):
                for style in (STYLES if comp == "table" else [None]):
                    check_rerender(ctx, {"component": comp, "ansi": ansi, "verbosity": v, "style": style})
                    if comp == "table":
                        for styled in range(1, 8):
                            for tagged in (False, True):
                                check_rerender(ctx, {"component": comp, "ansi": ansi, "verbosity": v, "style": style,
                                                     "styled": styled, "tagged": tagged})
    ctx.parallel("shard_styles", [(i, 16) for i in range(16)])
    ctx.exhaustive("styles", True, "all orders of 2-4 of the predefined styles x which one (or none) is customised, plus repeated constructions")
    ctx.hyp_sharded("history", 2400 if quick else 30000, salt=1)
    run_shared_parser(ctx)
    raisers.cleanup()
