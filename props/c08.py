"""C08 - splitting a command string never fails and inverts shell-style quoting."""
import itertools

from hypothesis import strategies as st

from vf.guard import NonTermination, run_guarded

LEVEL = "exploration"
RULE = (
    "total: every string up to length 5 (quick) / 7 (thorough) over {a,space,tab,',\",\\,-} enumerated in "
    "length-then-lexicographic order, plus Hypothesis unicode text; roundtrip: Hypothesis token lists "
    "(0-4 tokens of 0-5 chars over letters, whitespace incl. \\xa0/\\u2003, both quotes, backslash, '-', '=', "
    "non-ASCII) that the quoting scheme can express x quote style per token x whitespace-run separators; every code "
    "point (below U+3100 quick, all thorough) after a backslash inside quotes, bare inside quotes, unquoted between "
    "letters and as separator; "
    "equiv: C01 lines given as quoted string vs argv list to parser and resolver. Non-trivial: the string "
    "contains a quote or a backslash / the token list contains an empty token, whitespace, a quote or a "
    "backslash inside a token / the line has an option token and a '--' tail. Enumerated strings are "
    "distinct by construction; Hypothesis cases are deduplicated by hash."
)
ASSUMPTIONS = [
    "a token is expressible by the quoting scheme iff, read left to right in backslash+character pairs, no pair has a quote as second character or is cut short by the end of the token "
    "(the scanner collapses backslash-quote to the quote unconditionally)",
    "termination: a 5 s alarm only triggers a deterministic re-run under a 300000 line-event budget",
]

ALPHABET = ["a", " ", "\t", "'", '"', "\\", "-"]


def _split_model(tokens):
    """Expected option tokens: the prefix before the first '--'."""
    out = []
    for t in tokens:
        if t == "--":
            break
        out.append(t)
    return out


def _tokenize(s):
    from clikit.args import StringArgs

    return StringArgs(s)


def check_total(ctx, s, part="total", by_construction=False):
    from clikit.args import ArgvArgs

    nt = ("'" in s) or ('"' in s) or ("\\" in s)
    ctx.case(part, s, nt, distinct_by_construction=by_construction)
    try:
        raw = run_guarded(_tokenize, (s,))
    except NonTermination as e:
        ctx.fail(part, "C08.total", s, "terminates", str(e), sig="non-termination")
        return
    except Exception as e:
        ctx.fail(part, "C08.total", s, "token list", None, exc=e)
        return
    toks = raw.tokens
    if not isinstance(toks, list) or not all(isinstance(t, str) for t in toks):
        ctx.fail(part, "C08.total", s, "list of str", repr(toks), sig="type")
        return
    if not nt:
        exp = s.split()
        if toks != exp:
            ctx.fail(part, "C08.split", s, exp, toks)
    # splitting is a function of the string: what a caller does with the list it got (the help resolver deletes
    # its first token) does not change what the same string splits into next time
    snapshot = list(toks)
    edited = _tokenize(s)
    edited.tokens.append("edited-by-caller")
    del edited.tokens[0]
    again = _tokenize(s)
    if list(again.tokens) != snapshot or list(raw.tokens) != snapshot:
        ctx.fail(part, "C08.total", s, snapshot, {"second split": list(again.tokens), "first object": list(raw.tokens)},
                 sig="split-depends-on-earlier-objects")
        return
    # option tokens: prefix before the first '--', for the string form and the argv form
    exp_opt = _split_model(toks)
    argv = ArgvArgs(["prog"] + list(toks))
    joined = " ".join(toks)
    if raw.to_string() != joined or raw.to_string(False) != joined or argv.to_string(False) != joined \
            or argv.to_string() != "prog " + joined:
        ctx.fail(part, "C08.option-tokens", s, joined, [raw.to_string(), argv.to_string(False), argv.to_string()],
                 sig="to-string")
    if raw.script_name is not None or argv.script_name != "prog":
        ctx.fail(part, "C08.option-tokens", s, [None, "prog"], [raw.script_name, argv.script_name], sig="script-name")
    for kind, r in (("string", raw), ("argv", argv)):
        if list(r.tokens) != list(toks):
            ctx.fail(part, "C08.option-tokens", s, toks, list(r.tokens), sig=kind + "-tokens")
        if list(r.option_tokens) != exp_opt:
            ctx.fail(part, "C08.option-tokens", s, exp_opt, list(r.option_tokens), sig=kind)
        for t in set(toks) | {"--", "-v", "a"}:
            if r.has_option_token(t) != (t in exp_opt):
                ctx.fail(
                    part, "C08.option-tokens", s, t in exp_opt, r.has_option_token(t), sig=kind + "-has"
                )
            if r.has_token(t) != (t in toks):
                ctx.fail(part, "C08.option-tokens", s, t in toks, r.has_token(t), sig=kind + "-has-token")


def quote(token, style):
    if style == "bare":
        return token
    q = "'" if style == "single" else '"'
    body = token.replace("'", "\\'").replace('"', '\\"')
    return q + body + q


def expressible(token):
    """The scanner reads a backslash together with the character after it (a pair stands for itself, except that
    backslash-quote collapses to the quote). Reading the token left to right in such pairs, it is expressible iff
    no pair is cut short by the end of the token or has a quote as its second character."""
    i = 0
    while i < len(token):
        if token[i] == "\\":
            if i + 1 == len(token) or token[i + 1] in "'\"":
                return False
            i += 2
        else:
            i += 1
    return True


def bare_ok(token):
    return token != "" and not any(c.isspace() or c in "'\"\\" for c in token)


def build_line(case):
    parts = [case["lead"]]
    for i, (t, sty) in enumerate(zip(case["tokens"], case["styles"])):
        if i:
            parts.append(case["seps"][i - 1])
        parts.append(quote(t, sty))
    parts.append(case["trail"])
    return "".join(parts)


def check_roundtrip(ctx, case):
    tokens = case["tokens"]
    for t, sty in zip(tokens, case["styles"]):
        if not expressible(t) or (sty == "bare" and not bare_ok(t)):
            raise AssertionError("generator produced an inexpressible token: %r" % (case,))
    line = build_line(case)
    nt = any(t == "" or any(c.isspace() or c in "'\"\\" for c in t) for t in tokens)
    cls = []
    if any(t == "" for t in tokens):
        cls.append("rt:empty-token")
    if any(any(c.isspace() for c in t) for t in tokens):
        cls.append("rt:inner-whitespace")
    if any("'" in t or '"' in t for t in tokens):
        cls.append("rt:escaped-quote")
    if any("\\" in t for t in tokens):
        cls.append("rt:backslash")
    if any(t.endswith("\\") or "\\'" in t or '\\"' in t for t in tokens):
        cls.append("rt:backslash-pair-before-quote-or-end")
    ctx.case("roundtrip", case, nt, cls)
    try:
        raw = run_guarded(_tokenize, (line,))
    except NonTermination as e:
        ctx.fail("roundtrip", "C08.total", case, "terminates", str(e), sig="non-termination")
        return
    except Exception as e:
        ctx.fail("roundtrip", "C08.total", case, "token list", line, exc=e)
        return
    if list(raw.tokens) != list(tokens):
        ctx.fail("roundtrip", "C08.roundtrip", case, tokens, {"line": line, "tokens": list(raw.tokens)})


WS = [" ", "\t", "\n", "\xa0", " ", "\r"]
TOKEN_CHARS = ["a", "b", "Z", "-", "=", "é", "中", "'", '"', "\\", "\\", " ", "\t", "\n", "\r", "\xa0", "\u2003", "0"]


@st.composite
def token_st(draw):
    chars = draw(st.lists(st.sampled_from(TOKEN_CHARS), min_size=0, max_size=5))
    # constructive repair: a backslash followed by a quote / ending the token gets a letter after it
    # (pairs are read left to right, so an even run of backslashes before a quote or the end is kept as it is)
    out = []
    i = 0
    while i < len(chars):
        c = chars[i]
        if c == "\\":
            if i + 1 < len(chars) and chars[i + 1] not in "'\"":
                out += [c, chars[i + 1]]
                i += 2
            else:
                out += [c, "n"]
                i += 1
        else:
            out.append(c)
            i += 1
    return "".join(out)


@st.composite
def roundtrip_case(draw):
    tokens = draw(st.lists(token_st(), min_size=0, max_size=4))
    styles = []
    for t in tokens:
        opts = ["single", "double"] + (["bare"] if bare_ok(t) else [])
        styles.append(draw(st.sampled_from(opts)))
    sep = st.lists(st.sampled_from(WS), min_size=1, max_size=3).map("".join)
    seps = [draw(sep) for _ in range(max(0, len(tokens) - 1))]
    edge = st.lists(st.sampled_from(WS), min_size=0, max_size=2).map("".join)
    return {
        "tokens": tokens,
        "styles": styles,
        "seps": seps,
        "lead": draw(edge),
        "trail": draw(edge),
    }


def all_strings(maxlen, minlen=0):
    for n in range(minlen, maxlen + 1):
        for tup in itertools.product(ALPHABET, repeat=n):
            yield "".join(tup)


def shard_total(ctx, arg):
    """Enumerate all strings of length n that start with the given prefix."""
    n, prefix = arg
    rest = n - len(prefix)
    for tup in itertools.product(ALPHABET, repeat=rest):
        check_total(ctx, prefix + "".join(tup), by_construction=True)


def check_equiv(ctx, case):
    from props import c01

    c01.check_string_vs_argv(ctx, case)


def check_codepoint(ctx, cp, by_construction=False):
    """One code point c in four positions: after a backslash inside quotes, bare inside quotes, unquoted between
    letters (splits there exactly when c is whitespace), and as the separator between two quoted tokens when it
    is whitespace."""
    c = chr(cp)
    ctx.case("codepoints", cp, c.isspace() or not c.isascii(), distinct_by_construction=by_construction)
    quotes = "'\""
    cases = []
    if c not in quotes:
        cases.append(("'a\\" + c + "b'", ["a\\" + c + "b"]))
        cases.append(('"\\' + c + '"', ["\\" + c]))
    if c not in quotes and c != "\\":
        cases.append(("'a" + c + "b'", ["a" + c + "b"]))
        cases.append(("a" + c + "b", ["a", "b"] if c.isspace() else ["a" + c + "b"]))
    if c.isspace():
        cases.append(("'x'" + c + '"y"', ["x", "y"]))
    for line, want in cases:
        try:
            raw = run_guarded(_tokenize, (line,))
        except NonTermination as e:
            ctx.fail("codepoints", "C08.total", cp, "terminates", str(e), sig="non-termination")
            return
        except Exception as e:
            ctx.fail("codepoints", "C08.total", cp, "token list", line, exc=e)
            return
        if list(raw.tokens) != want:
            ctx.fail("codepoints", "C08.roundtrip" if line[0] in quotes else "C08.split", cp, want,
                     {"line": line, "tokens": list(raw.tokens)}, sig="codepoint")
            return


def shard_codepoints(ctx, arg):
    for cp in range(*arg):
        if 0xD800 <= cp < 0xE000:
            continue
        check_codepoint(ctx, cp, True)


PARTS = {
    "codepoints": check_codepoint,
    "total": check_total,
    "total-random": lambda ctx, s: check_total(ctx, s, part="total-random"),
    "roundtrip": check_roundtrip,
    "equiv": check_equiv,
}


HYP = {"roundtrip": (lambda ctx: roundtrip_case(), check_roundtrip)}

def run(ctx):
    quick = ctx.tier == "quick"
    maxlen = 5 if quick else 7
    if quick:
        for s in all_strings(maxlen):
            check_total(ctx, s, by_construction=True)
    else:
        for s in all_strings(4):
            check_total(ctx, s, by_construction=True)
        jobs = [(n, a + b) for n in range(5, maxlen + 1) for a in ALPHABET for b in ALPHABET]
        ctx.parallel("shard_total", jobs)
    ctx.exhaustive("total", True, "all strings of length <= %d over %r" % (maxlen, ALPHABET))

    text = st.text(
        alphabet=st.one_of(
            st.sampled_from(TOKEN_CHARS + WS), st.characters(blacklist_categories=("Cs",))
        ),
        max_size=40,
    )
    ctx.hyp(text, lambda s: check_total(ctx, s, part="total-random"), 1500 if quick else 40000, salt=1)
    ctx.hyp_sharded("roundtrip", 12000 if quick else 160000, salt=2)
    top = 0x3100 if quick else 0x110000
    step = top // 16
    ctx.parallel("shard_codepoints", [(i * step, (i + 1) * step) for i in range(16)])
    ctx.exhaustive("codepoints", True, "every code point below U+%X after a backslash, inside quotes, unquoted "
                   "between letters and as a separator" % top)
    if not quick:
        ctx.fuzz("c08", 400000)
    try:
        from props import c01
    except ImportError:
        c01 = None
    if c01 is not None and hasattr(c01, "string_vs_argv_cases"):
        ctx.hyp(
            c01.string_vs_argv_cases(),
            lambda c: check_equiv(ctx, c),
            600 if quick else 15000,
            salt=3,
        )
