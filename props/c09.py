"""C09 - global switches act the same wherever they appear and whatever command runs."""
import itertools
import os

from hypothesis import strategies as st

from vf import markup

LEVEL = "exploration"
RULE = (
    "all 2^7 subsets of the switch kinds {quiet, verbosity (-v/-vv/-vvv rotating), --ansi, --no-ansi, no-interaction, "
    "help, version}, long and short spellings rotating, x 6 base lines (one and two level command paths, flags, a "
    "detached option value, a multi-valued argument, a '--' tail) x 3 Hypothesis-drawn placements of the switches among "
    "the tokens after the command path (all placements for subsets of size <= 2 in the thorough tier) x handler that "
    "writes one tagged line per message level to both streams, asks four questions with defaults (plain, choice, "
    "confirmation, converting validator), writes to a section it creates from the output (overwrite + one line per "
    "level) and optionally raises; "
    "plus the same switch tokens copied after '--'; tree: Hypothesis command trees with a valid generated line for one "
    "of their commands (any depth, default sub-commands, aliases) and 1-4 switches inserted after the path; every run on a "
    "drawn pair of output/error streams that do or do not claim ANSI support; session: 2-4 runs (0-2 switches each, own "
    "stream pair each) on ONE application object, every run judged like a single run (non-trivial there: runs differ in "
    "switches or stream capability). Non-trivial: >= 2 switches, a switch between two positionals, or a "
    "post-'--' copy. Distinct by hash of (line, switches, placements)."
)
ASSUMPTIONS = [
    "subsets containing both --ansi and --no-ansi assert nothing about decoration; subsets containing both help and version "
    "only assert status 0, no handler and (if quiet) silence",
    "'-v' is an optional-value option: it is placed where the next token is option-like, '--' or the end (elsewhere it takes "
    "the next positional as its value by the parser's documented rule)",
    "switches are placed after the command path and never between an option and its detached value",
    "help output is compared with CommandHelp of the selected command rendered directly at the same width (80)",
]

L, G = markup.LT, markup.GT
LEVELS = [("normal", None, 0), ("verbose", 1, 1), ("very-verbose", 2, 2), ("debug", 4, 4)]
# (tokens before '--', index where the command path ends, positions that are NOT allowed, tail after '--', path)
LINES = [
    {"head": ["run", "v1"], "path": 1, "tail": None, "cmd": "run", "args": {"a1": "v1"}, "opts": {}},
    {"head": ["run", "v1", "r1", "r2"], "path": 1, "tail": None, "cmd": "run", "args": {"a1": "v1", "rest": ["r1", "r2"]}, "opts": {}},
    {"head": ["run", "--foo", "v1"], "path": 1, "tail": None, "cmd": "run", "args": {"a1": "v1"}, "opts": {"foo": True}},
    {"head": ["run", "v1", "--bar", "val", "r1"], "path": 1, "forbidden": [3], "tail": None, "cmd": "run",
     "args": {"a1": "v1", "rest": ["r1"]}, "opts": {"bar": "val"}},
    {"head": ["run", "v1"], "path": 1, "tail": ["r1", "-x"], "cmd": "run", "args": {"a1": "v1", "rest": ["r1", "-x"]}, "opts": {}},
    {"head": ["grp", "sub", "v1"], "path": 2, "tail": None, "cmd": "grp sub", "args": {"a1": "v1"}, "opts": {}},
]
KINDS = ["quiet", "verb", "ansi", "noansi", "nointeract", "help", "version"]
SPELL = {"quiet": ["-q", "--quiet"], "verb": ["-v", "-vv", "-vvv"], "ansi": ["--ansi"], "noansi": ["--no-ansi"],
         "nointeract": ["-n", "--no-interaction"], "help": ["-h", "--help"], "version": ["-V", "--version"]}
TOKEN_KIND = {t: k for k, ts in SPELL.items() for t in ts}


TYPED = "typed\n1\ny\n42\n"
ANSWERS_TYPED = ["typed", "b", True, 42]
ANSWERS_DEFAULT = ["dflt", "1", False, "8080"]


def ask_all(io):
    """The questions every handler asks: a plain one, a choice (always validated), a confirmation and one with a
    converting validator. Interactive answers come from TYPED; without interaction each returns its default as given."""
    from clikit.ui.components import ChoiceQuestion, ConfirmationQuestion
    from clikit.ui.components.question import Question

    Question._has_stty_available = lambda self: False  # line-reading path, as on a system without stty
    answers = [Question("q?", "dflt").ask(io)]
    answers.append(ChoiceQuestion("pick?", ["a", "b", "c"], "1").ask(io))
    answers.append(ConfirmationQuestion("sure?", False).ask(io))
    port = Question("port?", "8080")
    port.set_validator(int)
    port.set_max_attempts(2)
    answers.append(port.ask(io))
    return answers


def predicates(io):
    """[is_verbose, is_very_verbose, is_debug, is_quiet] of the I/O and of both of its outputs, plus their verbosity."""
    return [[bool(o.is_verbose()), bool(o.is_very_verbose()), bool(o.is_debug()), bool(o.is_quiet()), o.verbosity]
            for o in (io, io.output, io.error_output)]


def emit(io):
    """What every handler writes: one tagged line per message level on both streams, then a section that is
    overwritten (raw cursor-control codes when, and only when, the I/O is decorated)."""
    for name, flag, _ in LEVELS:
        io.write_line(L + "info" + G + "out-" + name + L + "/info" + G, flag)
        io.error_line(L + "info" + G + "err-" + name + L + "/info" + G, flag)
    section = io.output.section()
    section.write_line("sec-first")
    section.overwrite("sec-second")
    for name, flag, _ in LEVELS:
        section.write_line("sec-" + name, flag)


def build_app(log, raising):
    from clikit.api.args.format import Argument, Option
    from clikit.api.config.command_config import CommandConfig
    from clikit.config.default_application_config import DefaultApplicationConfig
    from clikit.console_application import ConsoleApplication
    from clikit.ui.components.question import Question

    class H(object):
        def handle(self, args, io, command):
            log.append({"cmd": command.full_name, "quiet": io.is_quiet(), "verbosity": io.verbosity,
                        "interactive": io.is_interactive(), "predicates": predicates(io),
                        "args": args.arguments(False), "opts": {k: v for k, v in args.options(False).items()
                                                                if k in ("foo", "bar")}})
            emit(io)
            log[-1]["answer"] = ask_all(io)
            if raising:
                raise ValueError("boom from handler")
            return 0

    cfg = DefaultApplicationConfig("my-app", "1.2.3")
    cfg.set_terminate_after_run(False)
    for name in ("run", "grp"):
        cc = CommandConfig(name)
        cc.set_description("the %s command" % name)
        target = cc
        if name == "grp":
            target = CommandConfig("sub")
            target.set_description("the sub command")
            cc.add_sub_command_config(target)
            cc.set_handler(H())
        target.add_argument("a1", Argument.REQUIRED, "first")
        target.add_argument("rest", Argument.OPTIONAL | Argument.MULTI_VALUED, "others")
        target.add_option("foo", "f", Option.NO_VALUE, "a flag")
        target.add_option("bar", "b", Option.REQUIRED_VALUE, "a value")
        target.set_handler(H())
        cfg.add_command_config(cc)
    return ConsoleApplication(cfg)


def build_tree_app(tree, log, raising):
    from clikit.ui.components.question import Question

    from vf import gen_tree

    switch_names = {o["long"] for o in gen_tree.DEFAULT_APP_OPTIONS}

    def handler_for(path, cmd):
        class H(object):
            def handle(self, args, io, command):
                log.append({"cmd": command.full_name, "quiet": io.is_quiet(), "verbosity": io.verbosity,
                            "interactive": io.is_interactive(), "predicates": predicates(io), "args": args.arguments(False),
                            "opts": {k: v for k, v in args.options(False).items() if k not in switch_names}})
                emit(io)
                log[-1]["answer"] = ask_all(io)
                if raising:
                    raise ValueError("boom from handler")
                return 0

        return H()

    return gen_tree.build_app(tree, "default", handler_for,
                              configure=lambda cfg: cfg.set_name("my-app").set_version("1.2.3"))


def place(line, switches, placement):
    """Insert switches[i] at head position placement[i] (positions refer to the original head)."""
    head = list(line["head"])
    out = []
    by_pos = {}
    for tok, p in zip(switches, placement):
        by_pos.setdefault(p, []).append(tok)
    for i in range(len(head) + 1):
        toks = by_pos.get(i, [])
        # '-v' goes last within a slot and only where the next token is option-like / end
        out.extend(toks)
        if i < len(head):
            out.append(head[i])
    return out


def legal_positions(line, token):
    head = line["head"]
    forbidden = set(line.get("forbidden", []))
    pos = [p for p in range(line["path"], len(head) + 1) if p not in forbidden]
    if token == "-v":
        pos = [p for p in pos if p == len(head) or head[p].startswith("-")]
    return pos


def fix_dash_v(tokens, line):
    """'-v' must not be directly followed by a positional: move it behind the following switch run if needed."""
    out = list(tokens)
    i = 0
    while i < len(out):
        if out[i] == "-v" and i + 1 < len(out) and not out[i + 1].startswith("-"):
            # find the end of the head
            out.pop(i)
            out.append("-v")
            continue
        i += 1
    return out


def stream(capable):
    """A buffered stream; capable=True makes it claim ANSI support like a terminal would."""
    from clikit.io.output_stream import BufferedOutputStream

    if not capable:
        return BufferedOutputStream()

    class CapableStream(BufferedOutputStream):
        def supports_ansi(self):
            return True

    return CapableStream()


def execute(line, tokens, raising, tree=None, caps=(False, False), session=None):
    """One run. session = (app, log) re-uses an application object (and its config) for several runs."""
    from clikit.args import ArgvArgs
    from clikit.io.input_stream import StringInputStream

    os.environ["COLUMNS"] = "80"
    if session is None:
        log = []
        app = build_app(log, raising) if tree is None else build_tree_app(tree, log, raising)
    else:
        app, log = session
        del log[:]
    out, err = stream(caps[0]), stream(caps[1])
    inp = StringInputStream(TYPED)
    status = app.run(ArgvArgs(["prog"] + tokens), inp, out, err)
    rest = inp.read_line()
    if isinstance(rest, bytes):
        rest = rest.decode()
    return {"status": status, "out": out.fetch(), "err": err.fetch(), "log": list(log), "input_left": rest,
            "caps": list(caps)}, app


def direct_help(app, cmd_name, ansi):
    from clikit.formatter import AnsiFormatter, PlainFormatter
    from clikit.io import BufferedIO
    from clikit.ui.help import CommandHelp
    from clikit.ui.rectangle import Rectangle

    io = BufferedIO("", AnsiFormatter(app.config.style_set, True) if ansi else PlainFormatter(app.config.style_set))
    io.set_terminal_dimensions(Rectangle(80, 25))
    cmd = app.get_command(cmd_name.split(" ")[0])
    for n in cmd_name.split(" ")[1:]:
        cmd = cmd.get_sub_command(n)
    CommandHelp(cmd).render(io)
    return io.fetch_output()


def judge(ctx, case, line, tokens, kinds, res, app, label, part="switches"):
    def fail(clause, expected, observed, sig=None):
        ctx.fail(part, clause, case, expected, {"variant": label, "tokens": tokens, "observed": observed}, sig=sig)

    quiet, helpk, version = "quiet" in kinds, "help" in kinds, "version" in kinds
    verb = {"-v": 1, "-vv": 2, "-vvv": 4}.get(kinds.get("verb"), 0)
    both_ansi = "ansi" in kinds and "noansi" in kinds
    raising = case["raise"]
    status, out, err, log = res["status"], res["out"], res["err"], res["log"]
    if quiet and (out or err):
        fail("C09.quiet", "both streams empty", [out, err], sig="quiet")
    if helpk or version:
        if log:
            fail("C09.help" if helpk else "C09.version", "handler not invoked", log, sig="handler-ran")
        if status != 0:
            fail("C09.help" if helpk else "C09.version", 0, status, sig="status")
        if helpk and version or quiet:
            return
        if helpk:
            want = direct_help(app, line["cmd"], ("ansi" in kinds and not both_ansi)
                               or ("ansi" not in kinds and "noansi" not in kinds and res["caps"][0]))
            if not both_ansi and out != want:
                fail("C09.help", want, out, sig="page")
        else:
            text = markup.strip_sgr(out)
            if text.strip() != "My App version 1.2.3":
                fail("C09.version", "My App version 1.2.3", out, sig="text")
        if "noansi" in kinds and not both_ansi and ("\x1b" in out or "\x1b" in err):
            fail("C09.no-ansi", "no escape byte", [out, err], sig="escape")
        return
    # the handler ran
    if len(log) != 1 or log[0]["cmd"] != line["cmd"]:
        fail("C09.position-invariance", "handler of %s invoked once" % line["cmd"], log, sig="handler")
        return
    rec = log[0]
    if rec["args"] != line["args"] or rec["opts"] != line["opts"]:
        fail("C09.position-invariance", [line["args"], line["opts"]], [rec["args"], rec["opts"]], sig="arguments")
    if rec["quiet"] != quiet:
        fail("C09.quiet", quiet, rec["quiet"], sig="io-state")
    if rec["verbosity"] != verb:
        fail("C09.verbosity", verb, rec["verbosity"], sig="io-state")
    want_pred = [[verb >= 1, verb >= 2, verb >= 4, quiet, verb]] * 3
    if rec["predicates"] != want_pred:
        fail("C09.verbosity", want_pred, rec["predicates"], sig="io-predicates")
    if rec["interactive"] != ("nointeract" not in kinds):
        fail("C09.no-interaction", "nointeract" not in kinds, rec["interactive"], sig="io-state")
    if "nointeract" in kinds:
        if rec["answer"] != ANSWERS_DEFAULT or res["input_left"] != "typed\n":
            fail("C09.no-interaction", {"answers": ANSWERS_DEFAULT, "input": "unread"}, [rec["answer"], res["input_left"]],
                 sig="question")
        if any(p in err for p in ("q?", "pick?", "sure?", "port?")):  # the prompt goes to the error output (the trace on stdout may quote harness source)
            fail("C09.no-interaction", "no prompt written", [out, err], sig="prompt")
    elif rec["answer"] != ANSWERS_TYPED:
        fail("C09.no-interaction", ANSWERS_TYPED, rec["answer"], sig="interactive-answer")
    want_status = 1 if raising else 0
    if status != want_status:
        fail("C09.position-invariance", want_status, status, sig="status")
    if not quiet:
        for name, flag, lvl in LEVELS:
            want = verb >= lvl
            for stream, text in (("out", out), ("err", err), ("sec", out)):
                present = (stream + "-" + name) in text
                if present != want:
                    fail("C09.verbosity", {"line " + stream + "-" + name: want}, text, sig="lines")
        if not both_ansi:
            decorated = "\x1b[32mout-normal\x1b[0m" in out and "\x1b[32merr-normal\x1b[0m" in err
            if "ansi" in kinds and not decorated:
                fail("C09.ansi", "tagged lines carry SGR codes", [out, err], sig="not-decorated")
            if "noansi" in kinds and ("\x1b" in out or "\x1b" in err):
                fail("C09.no-ansi", "no escape byte", [out, err], sig="escape")
            if "ansi" not in kinds and "noansi" not in kinds:
                # without either switch each stream is decorated exactly when it supports ANSI
                for name, text, cap in (("out", out, res["caps"][0]), ("err", err, res["caps"][1])):
                    dec = ("\x1b[32m%s-normal\x1b[0m" % name) in text
                    if cap and not dec:
                        fail("C09.ansi", "%s stream supports ANSI: tagged lines carry SGR codes" % name, text,
                             sig="capable-not-decorated")
                    if not cap and "\x1b" in text:
                        fail("C09.no-ansi", "%s stream without ANSI support stays plain without --ansi" % name, text,
                             sig="default-plain")
        if (L + "info" + G) in out or (L + "/info" + G) in err:
            fail("C09.no-ansi", "markup never shows", [out, err], sig="markup")


def check_switches(ctx, case, part="switches"):
    line = LINES[case["line"]] if "line" in case else case["line_spec"]
    tree = case.get("tree")
    switches = case["switches"]
    kinds = {TOKEN_KIND[t]: t for t in switches}
    between = False
    results = []
    tail = line["tail"]
    caps = tuple(case.get("caps", (False, False)))
    for pi, placement in enumerate(case["placements"]):
        head = fix_dash_v(place(line, switches, placement), line)
        tokens = head + (["--"] + tail if tail is not None else [])
        for i, t in enumerate(head):
            if t in TOKEN_KIND and 0 < i < len(head) - 1 and not head[i - 1].startswith("-") and not head[i + 1].startswith("-"):
                between = True
        try:
            res, app = execute(line, tokens, case["raise"], tree, caps)
        except Exception as e:
            ctx.fail(part, "C09.position-invariance", case, "run returns", tokens, exc=e)
            return
        judge(ctx, case, line, tokens, kinds, res, app, "placement-%d" % pi, part)
        results.append((tokens, res))
    base = results[0]
    for tokens, res in results[1:]:
        if "help" in kinds and "version" in kinds:
            break  # which of the two wins is not defined (see ASSUMPTIONS); status / silence were judged above
        if res != base[1]:
            diff = [k for k in res if res[k] != base[1][k]]
            ctx.fail(part, "C09.position-invariance", case, {"tokens": base[0], "result": {k: base[1][k] for k in diff}},
                     {"tokens": tokens, "result": {k: res[k] for k in diff}}, sig="differs")
    if case.get("tail_copy") and switches:
        # the same tokens after '--' have none of these effects
        plain_tokens = list(line["head"]) + ["--"] + (tail or [])
        copy_tokens = list(line["head"]) + ["--"] + (tail or []) + list(switches)
        try:
            a, _ = execute(line, plain_tokens, case["raise"], tree, caps)
            b, _ = execute(line, copy_tokens, case["raise"], tree, caps)
        except Exception as e:
            ctx.fail(part, "C09.after-separator", case, "run returns", copy_tokens, exc=e)
            return
        for k in ("status", "out", "err", "input_left"):
            if a[k] != b[k]:
                ctx.fail(part, "C09.after-separator", case, {k: a[k]}, {"tokens": copy_tokens, k: b[k]}, sig=k)
        if a["log"] and b["log"]:
            la, lb = dict(a["log"][0]), dict(b["log"][0])
            want_rest = list(la["args"].get("rest", [])) + list(switches)
            if lb["args"].get("rest") != want_rest:
                ctx.fail(part, "C09.after-separator", case, want_rest, lb["args"], sig="positionals")
            la.pop("args"), lb.pop("args")
            if la != lb:
                ctx.fail(part, "C09.after-separator", case, la, lb, sig="io-state")
        elif bool(a["log"]) != bool(b["log"]):
            ctx.fail(part, "C09.after-separator", case, "same handler invocations", [a["log"], b["log"]], sig="handler")
    if case.get("tail_copy") and switches and "line" in case and results:
        # switches in front of '--' keep their effect when the same tokens ALSO stand after it
        base_tokens, base_res = results[0]
        head0 = base_tokens[: base_tokens.index("--")] if "--" in base_tokens else list(base_tokens)
        both_tokens = head0 + ["--"] + (tail or []) + list(switches)
        try:
            c, _ = execute(line, both_tokens, case["raise"], tree, caps)
        except Exception as e:
            ctx.fail(part, "C09.after-separator", case, "run returns", both_tokens, exc=e)
            return
        for k in ("status", "out", "err", "input_left"):
            if c[k] != base_res[k] and not ("help" in kinds and "version" in kinds):
                ctx.fail(part, "C09.after-separator", case, {"tokens": base_tokens, k: base_res[k]},
                         {"tokens": both_tokens, k: c[k]}, sig="switch-also-after-separator-" + k)
                return
    nt = len(switches) >= 2 or between or bool(case.get("tail_copy"))
    ctx.case(part, case, nt, ["c09:" + k for k in kinds] + ["c09:caps=%d%d" % (caps[0], caps[1])])


def check_session(ctx, case):
    """Several runs on ONE application object (one config, its cached parts re-used), each with its own switches
    and its own pair of streams: every run is judged by the same per-run oracle as a single run."""
    log = []
    app = build_app(log, case["raise"])
    hist = []
    for i, run in enumerate(case["runs"]):
        line = LINES[run["line"]]
        switches = run["switches"]
        kinds = {TOKEN_KIND[t]: t for t in switches}
        head = fix_dash_v(place(line, switches, run["placement"]), line)
        tokens = head + (["--"] + line["tail"] if line["tail"] is not None else [])
        try:
            res, _ = execute(line, tokens, case["raise"], None, tuple(run["caps"]), session=(app, log))
        except Exception as e:
            ctx.fail("session", "C09.position-invariance", case, "run %d returns" % i, tokens, exc=e)
            return
        judge(ctx, case, line, tokens, kinds, res, app, "run-%d" % i, "session")
        hist.append((frozenset(kinds), tuple(run["caps"])))
    kinds_seen = {k for ks, _ in hist for k in ks}
    mixed = len({c for _, c in hist}) > 1
    nt = len(case["runs"]) >= 2 and (mixed or len({ks for ks, _ in hist}) > 1)
    ctx.case("session", case, nt, ["c09:session-" + k for k in kinds_seen] + (["c09:session-mixed-streams"] if mixed else []))


def check_tree_switches(ctx, case):
    check_switches(ctx, case, part="tree")


PARTS = {"switches": check_switches, "tree": check_tree_switches, "session": check_session}


CAPS = st.sampled_from([[False, False], [False, False], [True, True], [True, False], [False, True]])


@st.composite
def tree_case(draw):
    """A generated command tree, a valid line for one of its commands, a subset of the switches inserted after the path."""
    from props import c03
    from vf import gen_tree

    tree = draw(gen_tree.tree_st())
    for _ in range(6):
        c = draw(c03.line_for(tree, "default"))
        if c["kind"] == "valid" and c.get("expect") and c.get("intended") and c["intended"] != ["help"] \
                and c.get("depth", 0) >= 1 and not c.get("default_involved"):
            # depth >= 1: with no leading token the built-in help command is the first default;
            # no default sub-commands at the named command: which default is chosen is C03's subject
            break
    else:
        c = None
    if c is None:
        # fall back to the fixed application
        return draw(case_for(draw(st.integers(0, 127)), draw(st.integers(0, len(LINES) - 1))))
    tokens = list(c["tokens"])
    head = tokens[: tokens.index("--")] if "--" in tokens else tokens
    tail = tokens[tokens.index("--") + 1:] if "--" in tokens else None
    spec = {"head": head, "path": c.get("depth", 0), "tail": tail, "cmd": " ".join(c["intended"]),
            "args": c["expect"]["arguments_set"], "opts": c["expect"]["options_set"],
            "forbidden": [i for i in range(1, len(head) + 1) if head[i - 1].startswith("-") and "=" not in head[i - 1]]}
    kinds = draw(st.lists(st.sampled_from(KINDS), min_size=1, max_size=4, unique=True))
    switches = [draw(st.sampled_from(SPELL[k])) for k in kinds]
    placements = []
    for _ in range(2):
        pl = []
        for t in switches:
            pos = legal_positions(spec, t) or [len(head)]
            pl.append(draw(st.sampled_from(pos)))
        placements.append(pl)
    return {"tree": tree, "line_spec": spec, "switches": switches, "placements": placements, "raise": draw(st.booleans()),
            "tail_copy": False, "caps": draw(CAPS)}


@st.composite
def case_for(draw, subset_index, line_index, n_placements=3):
    kinds = [k for i, k in enumerate(KINDS) if subset_index >> i & 1]
    switches = []
    for k in kinds:
        switches.append(draw(st.sampled_from(SPELL[k])))
    switches = list(draw(st.permutations(switches)))
    line = LINES[line_index]
    placements = []
    for _ in range(n_placements):
        placements.append([draw(st.sampled_from(legal_positions(line, t))) for t in switches])
    return {"line": line_index, "switches": switches, "placements": placements, "raise": draw(st.booleans()),
            "tail_copy": draw(st.integers(0, 2)) == 0, "caps": draw(CAPS)}


@st.composite
def session_case(draw):
    runs = []
    for _ in range(draw(st.integers(2, 4))):
        li = draw(st.integers(0, len(LINES) - 1))
        kinds = draw(st.lists(st.sampled_from(KINDS), min_size=0, max_size=2, unique=True))
        switches = [draw(st.sampled_from(SPELL[k])) for k in kinds]
        placement = [draw(st.sampled_from(legal_positions(LINES[li], t))) for t in switches]
        runs.append({"line": li, "switches": switches, "placement": placement, "caps": draw(CAPS)})
    return {"raise": draw(st.booleans()), "runs": runs}


def all_cases(draw_all=False):
    return st.tuples(st.integers(0, 127), st.integers(0, len(LINES) - 1)).flatmap(lambda t: case_for(t[0], t[1]))


def shard(ctx, arg):
    i, n, per = arg
    jobs = [(s, l) for s in range(128) for l in range(len(LINES))]
    for j, (s, l) in enumerate(jobs):
        if j % n != i:
            continue
        ctx.hyp(case_for(s, l), lambda c: check_switches(ctx, c), per, salt=1000 + j, shrink=False)


def shard_all_placements(ctx, arg):
    i, n = arg
    j = 0
    for li, line in enumerate(LINES):
        for size in (1, 2):
            for kinds in itertools.combinations(KINDS, size):
                for spell in itertools.product(*[SPELL[k] for k in kinds]):
                    j += 1
                    if j % n != i:
                        continue
                    pos = [legal_positions(line, t) for t in spell]
                    placements = [list(p) for p in itertools.product(*pos)]
                    check_switches(ctx, {"line": li, "switches": list(spell), "placements": placements, "raise": False,
                                         "tail_copy": True, "caps": [[False, False], [True, True], [True, False]][j % 3]})


HYP = {"tree": (lambda ctx: tree_case(), check_tree_switches), "session": (lambda ctx: session_case(), check_session)}


def run(ctx):
    quick = ctx.tier == "quick"
    ctx.parallel("shard", [(i, 16, 3 if quick else 12) for i in range(16)])
    if not quick:
        ctx.parallel("shard_all_placements", [(i, 16) for i in range(16)])
    ctx.hyp(all_cases(), lambda c: check_switches(ctx, c), 200 if quick else 3000, salt=1)
    ctx.hyp_sharded("tree", 1600 if quick else 30000, salt=2)
    ctx.hyp_sharded("session", 1600 if quick else 30000, salt=3)
